#!/bin/sh
# Offline setup: create work directories and make sure every specification module parses (SANY).
cd "$(dirname "$0")" || exit 2
mkdir -p .work evidence replays
rm -rf .work/* 2>/dev/null
export PYTHONDONTWRITEBYTECODE=1
exec /venv/bin/python -m harness.setup
