#!/venv/bin/python
"""Generate MANIFEST.json from the table below (single source of truth for the interface)."""
import json, subprocess, sys
from pathlib import Path
VERIF = Path(__file__).resolve().parent.parent

TITLES = {json.loads(l)["id"]: json.loads(l)["title"] for l in open(VERIF / "properties.jsonl")}

CHECKS = {
 "C01": dict(
   text="TLC checks on BitLengthSets.tla that the analytic solver design (SMin/SMax/SMod with count reduction and lcm "
        "padding) equals the numeric meaning for every operator tree of the bounded universe, every divisor 1..8, every "
        "API call history on an object pool (memo transparency, operand immutability) and the reduction lemmas for all "
        "(d<=8/11, R, k<=3d+1). Every TLC state is replayed through the public BitLengthSet API and compared with the "
        "specification's answers; 64-bit repetition counts are reached by call records judged by TLC (BLSRecords.tla) "
        "and by the lemma table carried to huge k.",
   note="Bounded: leaves within 0..4 (quick) / 0..6 (thorough), two stacked operators plus fixed side operands, divisors 1..8 "
        "(operand sequences arrive as list / tuple / one-shot iterable, fixed-length leaves also as the plain integer or set they stand for) " 
        "exhaustively; larger divisors (<=64) and counts (<=2**63) are sampled and rest on the lemmas' definitional step. "
        "Trusted: TLC's evaluation of TLA+ set operators, Python integers.",
   technique="TLA+ spec + TLC exhaustive enumeration; spec states replayed into the real API; call records validated by TLC; arithmetic lemmas for all integers by Apalache",
   design="4 C01"),
 "C03": dict(
   text="TLC checks on Statements.tla that the lazily committing statement-stream machine (one operator per parser/builder "
        "step) yields exactly the declarative mirror of the text - every attribute once, in order, in the right part, with "
        "its doc comment, flags and service split - for every sequence of abstract lines up to the bound, and that "
        "inserting empty/blank/comment lines or a final newline does not change the structure. Every TLC state is rendered "
        "as DSDL text in several formatting variants, read with read_namespace and compared with the specification's "
        "result; accepted models are rendered back to canonical DSDL and re-read; the hook trace of every execution (flush / "
        "commit / statement / finalize steps) must equal the step log the specification produces; the steps recorded while the "
        "repository's own tests and every single token mutation of three seed definitions (mostly rejected texts) are read are "
        "judged one by one by TLC on TraceStatements.tla.",
   note="Bounded: all line sequences of length <=4 (quick) / <=5 (thorough) over a 17-symbol alphabet, <=3/4 over the "
        "full 27-symbol alphabet and <=7 over the identifier-scope alphabet (constants named alike in the request and the "
        "response part read by later constants and @print; RefsMirror); concrete tokens per kind are fixed (uint8 fields, uint16 constants, voidN paddings). "
        "Doc comments are compared under formatting changes that add or remove no comment and no empty line.",
   technique="TLA+ state machine + declarative mirror checked by TLC; every state replayed into read_namespace",
   design="4 C03"),
 "C17": dict(
   text="TLC checks on Statements.tla that a reported line is the line of the offending statement for every fault category "
        "(syntax, undefined identifier, failed assertion, lazily committed attribute errors, misplaced directives) at every "
        "position with arbitrary surrounding lines, that prints delivered before a failure are exactly the earlier @print "
        "lines, and on Reader.tla that error paths and print events name the file that contains the fault / directive. "
        "Every state is replayed (LF and CRLF, statements spanning two physical lines) and (class, path, line), print events "
        "and the recorded step traces (parser / builder steps, reader steps) are compared with the specification.",
   note="read_files configurations include a target listed twice under another spelling of its path (Dups). "
        "Bounded line sequences (<=4 quick, <=5 thorough) and dependency depth <=3. Known finding F4b (print path of a "
        "dependency) is listed in known_findings.json.",
   technique="TLA+ state machines checked by TLC; every state replayed into read_namespace, error location compared",
   design="4 C17"),
 "C02": dict(
   text="TLC checks on Layout.tla that the declarative layout rules of the Specification (bit length sets, alignment, extent, "
        "least prefix / tag widths, 32-bit header) coincide with the pairwise symbolic aggregation pydsdl performs "
        "(Expand(BLSsym(T)) = BLS(T), analytic solver exact on it), and the property's 'in particular' clauses, on every "
        "type of the universe. Every TLC state is materialised as DSDL, read with read_namespace and the real type's "
        "bit_length_set, alignment_requirement, extent, length/tag/header widths are compared; capacities and variant "
        "counts are enumerated by bit length 1..64 at both ends of each interval.",
   note="Sessions (Layout_sessions.cfg): every pair of element types whose sets differ but agree in min / max / residues mod 32, "
        "(boundary unions are built through the public constructor from a list / tuple / generator in turn) " 
        "wrapped seven ways, both read in one process in either order (caches keyed too coarsely). "
        "Universe: all primitive widths 1..64 in flat shapes (capacities 1-3, six sibling field types incl. sub-byte, composite "
        "and variable-length), small widths nested 2 (quick) / 3 (thorough) levels, extents max/+8/+24. Union tag boundaries "
        "are instantiated up to 2**9 (quick) / 2**13 (thorough) variants; beyond that the rule is checked on the spec only.",
   technique="TLA+ declarative layout vs symbolic aggregation checked by TLC; every state materialised and compared",
   design="4 C02"),
 "C08": dict(
   text="TLC checks on Layout.tla that the offsets the iterators compute chain into the type's bit length set, are aligned "
        "for every field, and that `_offset_` padded to the next field's alignment is that field's offset, for every "
        "composite / fixed array of the universe and eight base offset sets. Every state is materialised; "
        "iterate_fields_with_offsets / enumerate_elements_with_offsets (queried repeatedly on one object) and the printed "
        "intrinsics `_offset_` (every position), `T._bit_length_`, `T._extent_` are compared with the specification.",
   note="Same universe as C02; base sets {0},{8},{1},{0,4,8},{3,16},{7,9},{0,64},{0,32,64}. That offsets are the positions the "
        "(the many-attribute types are built from a list / tuple / iterator in turn) " 
        "encoder really uses is checked in Wire.tla (C06).",
   technique="TLA+ offset rules checked by TLC; every state materialised, iterators and @print intrinsics compared",
   design="4 C08"),
 "C06": dict(
   text="TLC checks on Wire.tla that the Specification's bit-level encoder and total decoder round-trip, that the encoded "
        "length is a member of the independently specified bit length set (LengthInBLS couples the two layout computations "
        "the property names), that padding / defaults behave as stated and that iterator offsets are the positions the "
        "encoder uses, for every (type, value, header) of the universe. Every state is replayed: serialize() must equal the "
        "specification's bytes exactly, deserialize() the canonical value, relaxed forms and omitted default fields the same "
        "bytes, and the length must be in the real type's bit_length_set. Floats.tla specifies IEEE 754 binary16 / binary32 "
        "(Decode, round to nearest even, saturated / truncated cast) and every state of it is replayed through serialize / deserialize.",
   note="IEEE 754 conversion is decided by Floats.tla / FloatOps.tla for binary16 (quick: 11 boundary fractions of every binade, "
        "thorough: every pattern) and binary32 (boundary fractions of every binade): each value perturbed by 0..7 eighths of an "
        "ulp in both signs and both cast modes, beyond-range values, infinities, NaN; RoundFin is checked by TLC against the "
        "neighbour rule and exact distances. binary64 (53-bit significands exceed TLC's integers) stays a sampled list. Integer "
        "widths in Wire.tla are <= 23 (every start offset 1..7 within a byte); widths 1..64 x cast modes x start offsets 0..7 "
        "are sampled by the harness with closed-form expectations. UTF-8 arrays are outside. The serialized bytes reach deserialize() "
        "also through buffers whose items are 16 / 32 bits wide; three pairs of types that compare equal but order their variants / "
        "fields differently are loaded into one process and used alternately (closed-form bytes).",
   technique="TLA+ encoder/decoder spec checked by TLC; every (type,value) state replayed into serialize/deserialize, bytes compared",
   design="4 C06"),
 "C07": dict(
   text="TLC checks on Wire.tla that the specification's decoder is total and obeys FixedPoint, TruncationIgnored and "
        "ZeroExtension (with the delimiter-header carve-out) on every bit string up to the bound. The real deserialize() is "
        "then called on exhaustively and systematically enumerated byte strings for every type of the universe; each call "
        "is recorded and judged by TLC against the specification's decoder (call records, total verdict); any exception "
        "other than SerDesError / ValueError is a violation; returned objects are re-serialised and re-read. Recorded bit reader / "
        "writer steps (fast and slow path, clipped reads, sub-readers) of the harness's calls and of the repository's own serdes "
        "tests are validated by TLC (TraceWire.tla).",
   note="Bit strings <= 8 bits for two-level types on the specification; on the code: all "
        "strings <= 1 byte, 600+ two-byte strings, every prefix and single-bit corruption of four valid representations, "
        "junk / zero suffixes, random strings <= 16 bytes, for up to 500 types (quick, sampled) / all types (thorough). "
        "Results containing NaN are skipped (payload does not survive a Python float). The byte string is handed over as bytes / "
        "bytearray / memoryview (also a slice of a larger buffer) in turn. Thorough: 8 bits at two nesting steps and 16 bits at one on the "
        "specification, 1 200 types on the code.",
   technique="TLA+ total decoder checked by TLC; recorded deserialize() calls validated against the spec by TLC",
   design="4 C07"),
 "C14": dict(
   text="TLC checks on Evolve.tla that a container's bit length set, extent and field offsets do not depend on the revision "
        "of a nested delimited type and that data written with one revision is read with the other as the property states "
        "(forward and backward), for eight container shapes x base / appended field lists x extents x all values. Every "
        "state is replayed with both revisions materialised as D.1.0 / D.1.1 in one namespace and one process.",
   note="Both tiers run Evolve_quick.cfg (the richer thorough configuration raises a TLC evaluation error that is not yet repaired). Container shapes: field, field between fields, fixed / variable array element followed by a field, union variant "
        "(every framed cross-read is repeated with three tails appended behind the announced payload) " 
        "followed by a field, inside another delimited type, union at top, the revision itself with its header. Quick uses "
        "the lean value sets (8k states), thorough the rich ones (730k states).",
   technique="TLA+ spec of cross-revision reads checked by TLC; every state replayed through serialize/deserialize of both revisions",
   design="4 C14"),
 "C09": dict(
   text="TLC checks on Reader.tla (implementation-shaped recursive reader with the shrinking lookup list, per-object cache, "
        "sorted target loop) that a resolved reference names exactly the definition and version asked for, that missing / "
        "self / cyclic / case-variant / ambiguous references never succeed, and the closure invariants, for every "
        "configuration of the universe. Every configuration is materialised in three directories and read; the file "
        "identity of every nested type reachable through any referrer, or the error class / path / line, is compared, and the "
        "recorded reader steps (begin / resolve / end) must equal the specification's step log. Sessions.tla: every history of "
        "two (three, sampled) calls over variants of one namespace that keep type names and versions but change content is run in a "
        "process of its own; every call must observe what the same call observes alone.",
   note="A second file of one name + version inside one directory (legacy suffix) is part of the configurations. "
        "Configurations: <= 2 definitions with every reference kind and pairs of spellings (full), 3 definitions with "
        "absolute references (graph shapes; sampled 1/8 in quick). Directories: target root a, lookup b, second lookup a'. "
        "Versions use major 0 so the minor-version rules (C11) do not interfere.",
   technique="TLA+ reader/resolver spec checked by TLC; every configuration materialised and read, links and errors compared",
   design="4 C09"),
 "C10": dict(
   text="TLC checks on Namespaces.tla that the glob + set + sort pipeline yields one entry per file under the root, sorted by "
        "(name, -major, -minor), for every enumeration order (OrderIndependent), and the directory-set rule over argument "
        "lists; on Reader.tla (Entry files) that direct = targets and transitive = closure - targets for every target "
        "subset. Every state is materialised and read; read_files is also compared with read_namespace's types; the same "
        "namespace is re-read under several hash seeds and with reordered / duplicated / relative / symlinked arguments.",
   note="Trees of <= 3 (quick) / 4 (thorough) files, depth 0-2, .dsdl/.uavcan; 7 resolved directories x 3 spellings, <= 2 "
        "lookups. File-system enumeration order is explored on the specification only; hash seeds are forced (5 / 24). The lookup "
        "directory of the tree cases is alternately a namespace of the root's own name; read_files is also called with relative spellings "
        "from each scratch tree's root, case after case in one process. Histories of two calls that share their directory-argument list "
        "objects (Sessions.tla) return what each call returns alone. Known finding F18: twin files of one name, version and layout are "
        "merged silently and the survivor varies with the hash seed (matched by kind = twin-files, same_layout = true; twins of "
        "different layout must be rejected).",
   technique="TLA+ pipeline and directory rule checked by TLC; every state materialised; hash-seed subprocess comparison",
   design="4 C10"),
 "C19": dict(
   text="TLC checks on Reader.tla that no definition outside Targets + Closure is ever parsed (NoLoadOutsideClosure) and that "
        "replacing the body of such a definition leaves the whole outcome unchanged (OutsideIrrelevant), for read_namespace "
        "and read_files with every target subset. Every configuration with an outside definition is read as is and with six "
        "replacement texts; projections must be identical; the recorded text loads of every run must lie inside the closure and "
        "the recorded scope of the cross-definition checks must be direct / direct + transitive.",
   note="Replacements: garbage, failing assertion, missing @sealed, @print, service instead of message, undefined reference. "
        "A fixed family adds unreferenced files whose NAME carries a target's port-ID or equals a referenced name only after Unicode case folding, with five texts, both entry points and both values of allow_unregulated_fixed_port_id. " 
        "Also an empty file and a file of line breaks only. " 
        "Malformed file names in lookup directories are outside (inspected at listing time).",
   technique="TLA+ closure invariants checked by TLC; paired runs of every configuration against the implementation",
   design="4 C19"),
 "C11": dict(
   text="TLC checks on CrossDef.tla that the two pairwise loops of the implementation decide exactly the declarative rules "
        "of the statement (LoopsDecideTheRules) for every pair of definitions over names x majors 0..2 x minors x kinds x "
        "ports (none, 0, 5) x sealing x size classes, request and response separately. Every set is materialised in one "
        "namespace and read; accepted vs rejected-with-InvalidDefinitionError is compared with the declarative rules.",
   note="Pairs exhaustively (69k), every chain of three (thorough: four) minor versions under one major over kind x port x "
        "(half of the sets with several minors also renumbered order-preservingly to 0, 2, 9, 10, 11; half of the sets of two names also split over two root namespaces and read through read_files) " 
        "sealing x size (29k / 45k), mixed triples (1.3 * 10^7 states) are checked by TLC on the specification only - materialising them is not part of the registered runs. Violations located in lookup namespaces are covered "
        "by four fixed scope cases.",
   technique="TLA+ declarative rules vs pairwise loops checked by TLC; every set materialised and read",
   design="4 C11"),
 "C15": dict(
   text="TLC enumerates on Paths.tla every spellable combination of path shape (depth, repeated root name, port, version, "
        "name), working directory, target spelling and root designation with the declarative Identity function and the set "
        "of documented (promised) combinations. Each is executed with real directories and chdir: successes must yield the "
        "path-derived identity and back pointers, failures must be InvalidDefinitionError, promised combinations must "
        "succeed; malformed file names are rejected. The four inference strategies, from_first_in and the nested-root validation are "
        "transcribed (NeverWrongIdentity, PromisedSucceeds hold on the model; as-found configs give the F8 counterexamples) and the "
        "model's outcome is compared with the real outcome for every combination.",
   note="The tree lives below a directory named like the root in another letter case; nested files are read again with the inner "
        "(roots may also be two bare names - the nested namespace's listed before / after the root's; thorough: four names, six versions, nine port-IDs) " 
        "directory as root in the same process. One root with a second root before / after; root names unique except for one nested directory named like the root. "
        "int() leniency in file names is not judged. Messages and services: the request / response part of a service carries the "
        "service's name extended by one component, its version and back pointers, and no port-ID (PartsShape).",
   technique="TLA+ declarative identity/promise spec enumerated by TLC; every state executed against read_files/read_namespace",
   design="4 C15"),
 "C04": dict(
   text="TLC evaluates on ExprOps.tla / Expr.tla every expression of three enumerations (operator-pair precedence grid, "
        "operator x operand-kind grid, type-directed trees) with exact rational arithmetic, set semantics and the table of "
        "undefined combinations, and derives minimal-parenthesis token sequences from the Specification's precedence / "
        "associativity levels. Every state is rendered three ways (random literal forms and blanks) into @print and, for "
        "small integers, a constant initialiser, array capacity, @assert and @extent; values and rejections are compared.",
   note="Magnitudes are guarded at 30000 (TLC has 32-bit integers); real exponents, negative bitwise operands, string "
        "concatenation / NFC and wide integers are outside TLC and covered by a fixed list in the harness; min / max of "
        "singleton sets of unordered kinds and of sets of sets that are not chains are not judged. Operand kinds include data types "
        "and sets of data types (no operator but the attribute one applies). The fixed list also reads constants of every type by name "
        "(false, 0, 0.0, NUL among them), holds results that need more digits than a float's shortest repr, and is read a second time "
        "with strict=True (as is one rendering of every enumerated expression): no change for texts within the Specification.",
   technique="TLA+ evaluator and precedence table checked/enumerated by TLC; every state rendered and evaluated by pydsdl",
   design="4 C04"),
 "C05": dict(
   text="TLC enumerates on Rules.tla every definition within two (three, sampled) deviations of a valid skeleton over eleven "
        "dimensions with Valid = conjunction of the thirteen named rule predicates stated on semantic attributes (widths, "
        "capacities, ranges, counts); Statements.tla covers directive placement exhaustively. Every abstract definition is "
        "materialised and read; accepted iff Valid, every rejection an InvalidDefinitionError.",
   note="Capacities and extents that are not natural numbers (5/2, negative, string, boolean, set) and names with non-ASCII "
        "(also: a definition with an unregulated port-ID reached first as a dependency - field / array / constant reference, referrer sorting before or after, both entry points -, and the rules the model classes enforce themselves under five argument forms of the public constructors) " 
        "letters / digits / marks, a leading digit or a dash (from the file system) are part of the pools. "
        "The legality of name tokens is a table (63 tokens) transcribed from the Specification; relative extents use the "
        "longest representation of the sealed variant as read from the implementation (C02 decides extents).",
   technique="TLA+ rule predicates enumerated by TLC; every definition materialised and read, accept/reject compared",
   design="4 C05"),
 "C12": dict(
   text="TLC enumerates on Constants.tla every constant type (all integer widths 1..64, both signednesses and cast modes, "
        "three float formats, bool) with ~100 symbolic values each around both ends of every range (s*2^e + o + 1/3, largest "
        "finite float +- 1/3, every string of up to two characters over seven character classes, booleans, sets); the exponent arithmetic is validated against plain integers up to 24 "
        "bits. Each pair is rendered with an exact expression and read; accepted iff Compliant and the stored value exact.",
   note="A fixed list of literal forms (negative exponents, digit separators, bases) must be stored as the exact rational they denote. "
        "It includes compliant values whose rational form has thousands of digits and results of fractional powers. " 
        "Cases meet in the worker processes in a seeded random order. Trusts C04 for the exactness of the boundary expressions.",
   technique="TLA+ compliance predicate on symbolic boundary values enumerated by TLC; every pair read by pydsdl",
   design="4 C12"),
 "C13": dict(
   text="TLC checks on Funnel.tla that what escapes the layered exception handlers is an InvalidDefinitionError with a path "
        "exactly for raise sites of the InvalidDefinition family, and enumerates every single token mutation (and adjacent "
        "double mutations) of three seed definitions over a 116-entry vocabulary (incl. references to six faulty dependencies, one per class of fault, whose file the error must then name). Every mutated text, every state of Expr.tla's "
        "operator x operand-kind grid in five expression contexts, 65 corner texts (incl. nesting of 45..400 levels and chains of 3 000 operators), seeded "
        "character noise, 31 file-name shapes and 6 duplicate file sets are read: model or InvalidDefinitionError with path; the "
        "recorded chain of exception conversions of every rejected mutation is validated by TLC (TraceFunnel.tla).",
   note="Known findings F10 / F10b (4300-digit limit of int<->str) are matched by the site that meets the limit (Rational.__str__ / the decimal literal visitor); the limit met elsewhere is reported. Unbounded power towers are excluded "
        "(bounded magnitude); all Unicode strings are sampled. Nesting is not bounded any more (F19 fixed: 45..400 levels, chains of "
        "3 000 operators are corner texts); every file-name shape is also a read_files target under five designations (F21 fixed).",
   technique="TLA+ propagation model checked by TLC; TLC-enumerated token mutations and harness noise read by pydsdl",
   design="4 C13"),
 "C18": dict(
   text="TLC checks on Values.tla the equality laws by key (class, normalised string form, approximate bit length set) over "
        "every ordered pair of 100 type descriptions with the verdict must-equal / must-differ / either, and that no "
        "sequence of accessor + list mutation steps - started on a cold object (no accessor read before) or a warm one, for six kinds "
        "of object (structure, union, delimited and its inner type, service and its request) - changes an object's projection. Both objects of each pair are built "
        "independently and ==, !=, hash, Field and BitLengthSet equality compared; objects are re-compared with fresh ones "
        "after use; pickling round-trips; accessor histories are replayed.",
   note="Objects that were used here are also pickled (protocols 2 and highest) and unpickled in another interpreter with another "
        "hash seed, where they must equal - and hash like - freshly read ones. byte / utf8 and service types are outside the enumerated universe of pairs; expression values and bit length sets are "
        "compared over fixed / random lists by the harness. Accessor histories also run on structures / unions / delimited wrappers built "
        "through the public constructors, where the caller's own attribute list is one of the lists mutated, and on structures built "
        "from a generator / tuple.",
   technique="TLA+ equality-by-key and aliasing machine checked by TLC; every pair / history replayed on real objects",
   design="4 C18"),
 "C16": dict(
   text="TLC checks on BitLengthSets.tla that the enumeration the solver design performs for a repetition depends on the "
        "count only through EquivK(k, d) < 2d and that residue sets never exceed the divisor (CostIndependentOfK, CostBounded, "
        "Reduction). With the solver hooks on, a family of 31 definitions (incl. zero-length elements and narrow sets with a huge "
        "fixed part) is read and queried for capacity exponents 1..63; every recorded solver event is validated by TLC against "
        "the design (TraceSolver.tla), and the instruction count inside the bit length set package must not grow from 2**16 "
        "elements upward and stay below a fixed budget.",
   note="Known finding F15: a definition that READS `_offset_` behind a huge array is expanded numerically (the intrinsic is a set value). "
        "The sweep includes capacities 3, 6, 12 (thorough: 5, 10, 24 too) besides the powers of two. " 
        "Wall time and memory are not decided (reported only); the decided statement is its operation-count form. The budget "
        "(4*10^7 instructions, ~7x the unchanged tree) and a 180 s terminator for work stuck in C-level iteration are the only "
        "thresholds.",
   technique="TLA+ cost lemmas checked by TLC (and, for all integers, by Apalache); recorded solver events validated by TLC; deterministic instruction counts compared",
   design="4 C16"),
}

NOT_YET = "check not built yet in this round (see DESIGN.md section 9 build order)"

def main():
    hooks_commits = []
    hc = VERIF / "hooks_commits.txt"
    if hc.exists():
        hooks_commits = [l.split()[0] for l in hc.read_text().splitlines() if l.strip()]
    m = {
        "version": 1,
        "setup_cmd": "./setup.sh",
        "hooks": {
            "guard": "OPENCYPHAL_PYDSDL_VERIF",
            "enable": "environment variable OPENCYPHAL_PYDSDL_VERIF=1 (set by ./check); python imports /repo's working tree directly, no build step",
            "baseline_off_cmd": "cd /repo && env -u OPENCYPHAL_PYDSDL_VERIF /venv/bin/python -m pytest -ra -q -p no:cacheprovider --timeout=900 --continue-on-collection-errors",
            "source_commits": hooks_commits,
            "add_only": True,
        },
        "engines": [
            {"name": "tlc", "path": "/opt/veriftools/tla/tla2tools.jar", "serves_properties": sorted(CHECKS),
             "kind_free_text": "explicit-state model checker for the TLA+ specifications under /verif/spec"},
            {"name": "harness", "path": "/verif/harness", "serves_properties": sorted(CHECKS),
             "kind_free_text": "conformance harness: replays TLC states into pydsdl, validates recorded traces / call records with TLC"},
        ],
        "checks": [],
        "notes": "All checks: ./check <ID> --tier quick|thorough; specs in /verif/spec; see DESIGN.md.",
        "not_applicable": [],
    }
    for pid in sorted(TITLES):
        if pid in CHECKS:
            c = CHECKS[pid]
            m["checks"].append({
                "property_id": pid,
                "quick_cmd": "./check %s --tier quick" % pid,
                "thorough_cmd": "./check %s --tier thorough" % pid,
                "evidence_file": "evidence/%s.json" % pid,
                "replay_cmd_template": "./check %s --replay {path}" % pid,
                "engine": "tlc",
                "level_claimed": {"category": "model_checking", "text": c["text"], "design_ref": c["design"]},
                "level_note": c["note"],
                "technique": c["technique"],
            })
        else:
            m["not_applicable"].append({"property_id": pid, "reason": NOT_YET})
    (VERIF / "MANIFEST.json").write_text(json.dumps(m, indent=1) + "\n")
    code = ("import json,sys,jsonschema;"
            "jsonschema.validate(json.load(open(sys.argv[1])), json.load(open('/root/.vp/MANIFEST.schema.json')))")
    p = subprocess.run(["python3-vt", "-c", code, str(VERIF / "MANIFEST.json")])
    print("MANIFEST.json written, %d checks, valid=%s" % (len(m["checks"]), p.returncode == 0))
    return p.returncode

if __name__ == "__main__":
    sys.exit(main())
