#!/bin/sh
# Run every check at the given tier sequentially; print one summary line per check. Usage: tools/run_all.sh quick|thorough
T=${1:-quick}
for c in C01 C02 C03 C04 C05 C06 C07 C08 C09 C10 C11 C12 C13 C14 C15 C16 C17 C18 C19; do
  s=$(date +%s)
  ./check $c --tier $T > .work/run_$c.log 2>&1
  rc=$?
  e=$(date +%s)
  echo "$c rc=$rc $(($e-$s))s $(grep -c '^VIOLATION' .work/run_$c.log) violations; $(tail -1 .work/run_$c.log | cut -c1-200)"
done
