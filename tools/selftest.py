#!/venv/bin/python
"""Self-test of the machinery (not a registered check).

  selftest.py asfound-specs     TLC must return a counterexample for every as-found configuration
  selftest.py binding           corrupt one recorded field / drop one hook event and show that the trace is rejected
  selftest.py coverage          run registered configurations with -coverage 1: every action must be taken
  selftest.py seeded [ids...]   every seeded change must be detected by the check(s) of its property (quick tier)
  selftest.py all
Writes selftest_report.json.
"""
import json, os, subprocess, sys, time
from pathlib import Path
VERIF = Path(__file__).resolve().parent.parent
sys.path.insert(0, str(VERIF))
os.environ["OPENCYPHAL_PYDSDL_VERIF"] = "1"
from harness import tlc, core, records, wiretrace  # noqa

REPORT = {}

def asfound_specs():
    out = {}
    for mod, cfg, inv in (("MC_Statements", "Stmt_asfound_F1.cfg", None), ("MC_Statements", "Stmt_asfound_F2.cfg", None),
                          ("Reader", "Reader_asfound_F4a.cfg", "PrintOnce"), ("Reader", "Reader_asfound_F4b.cfg", "PrintOwnPath"),
                          ("Values", "Values_asfound_F6.cfg", "ProjectionUnchanged"),
                          ("Paths", "Paths_asfound_F8a.cfg", None), ("Paths", "Paths_asfound_F8b.cfg", None)):
        r = tlc.run(mod, cfg, tag="self")
        ok = bool(r.violated) and (inv is None or inv in r.violated)
        out[cfg] = {"violated": r.violated, "as_expected": ok}
        tlc.cleanup(r)
        print(cfg, out[cfg])
    REPORT["asfound_specs"] = out
    return all(v["as_expected"] for v in out.values())

def binding():
    core.use_repo(); core.quiet()
    import pydsdl
    from pydsdl import _verif_trace
    from harness import dsdlio
    out = {}
    # (i) a recorded reader step with one corrupted bit is rejected by TraceWire.tla, the intact trace is accepted
    with dsdlio.Tree({"ns/X.1.0.dsdl": "uint3 a\nuint16[<=2] b\nbool c\n@sealed\n"}, "self") as tr:
        X = pydsdl.read_namespace(tr.path("ns"))[0]
    _verif_trace.drain()
    pydsdl.deserialize(X, pydsdl.serialize(X, {"a": 5, "b": [513, 7], "c": True}))
    recs, mal = wiretrace.to_records([e for e in _verif_trace.drain() if e["ev"].startswith(("rd", "wr"))])
    ctx = core.Ctx("C07", "quick", 0)
    good = records.check(ctx, "TraceWire", [dict(r, id=i + 1) for i, r in enumerate(recs)], "self", slices=1)
    corrupted = [dict(r, id=i + 1) for i, r in enumerate(recs)]
    victim = next(r for r in corrupted if r["kind"] == "rd" and r["n"] >= 8)
    victim["bits"] = [1 - victim["bits"][0]] + victim["bits"][1:]
    bad = records.check(ctx, "TraceWire", corrupted, "self", slices=1)
    out["wire_trace"] = {"records": len(recs), "intact_rejected": sorted(good), "corrupted_rejected": sorted(bad), "victim": victim["id"]}
    ok1 = (not good) and bad == {victim["id"]}
    # (ii) a reader trace with one hook event removed no longer equals the specification's log
    from harness import reader_replay as rr
    case = {"defs": [{"dir": 1, "name": "X", "maj": 0, "min": 1, "refs": ({"ns": "a", "name": "Y", "maj": 0, "min": 1},), "body": "ok"},
                     {"dir": 1, "name": "Y", "maj": 0, "min": 1, "refs": (), "body": "print"}], "targets": []}
    got = rr.run_config(case, "namespace")
    steps = [e for e in got["events"] if e[0] in ("begin", "end", "resolve", "print")]
    exp_log = list(steps)           # the conforming execution is its own expectation here
    closure = {(1, "X", 0, 1), (1, "Y", 0, 1)}
    d_ok = rr.compare_events(exp_log, closure, closure, got["events"], True)
    dropped = [e for e in got["events"] if not (e[0] == "resolve")]
    d_bad = rr.compare_events(exp_log, closure, closure, dropped, True)
    out["reader_trace"] = {"steps": len(steps), "intact_diff": len(d_ok), "with_dropped_event_diff": [str(x[0]) for x in d_bad]}
    ok2 = (not d_ok) and bool(d_bad)
    # (iii) a solver event with a wrong reduced count is rejected by TraceSolver.tla
    rec_ok = {"id": 1, "ev": "modulo", "op": "rep", "d": 8, "kmod": 3, "big": True, "keq": 11, "n": 2, "r": 0, "lcm": 0, "sizes": [], "size": 0, "phase": "query", "ksmall": 0}
    rec_bad = dict(rec_ok, id=2, keq=19)
    bad3 = records.check(ctx, "TraceSolver", [rec_ok, rec_bad], "self", slices=1)
    out["solver_trace"] = {"rejected": sorted(bad3)}
    ok3 = bad3 == {2}
    # (iv) a statement trace from which one commit event is removed is rejected by TraceStatements.tla
    from harness import stmttrace
    import re as _re
    with dsdlio.Tree({"ns/A.1.0.dsdl": "# head\nuint8 a # doc\nuint8 K = 1\n\nvoid3\n@sealed\n"}, "self") as tr:
        _verif_trace.drain()
        pydsdl.read_namespace(tr.path("ns"))
        evs = _verif_trace.drain()
    def judge(events):
        seq, _files = stmttrace.to_sequence(events)
        wd = tlc.workdir("selfst"); rp = wd / "t.ndjson"
        rp.write_text("\n".join(json.dumps(x) for x in seq) + "\n")
        r = tlc.run("TraceStatements", "TraceStatements.cfg", workers=1, env={"RECORDS": str(rp)}, tag="selfst")
        m = _re.search(r'<<\s*"VERDICT",\s*(\d+),\s*(\{[^}]*\})\s*>>', r.out)
        tlc.cleanup(r)
        from harness import tlaval
        return sorted(tlaval.parse(m.group(2))) if m else None
    intact = judge(evs)
    k = next(i for i, e in enumerate(evs) if e["ev"] == "commit" and e["pending"])
    dropped4 = judge(evs[:k] + evs[k + 1:])
    out["statement_trace"] = {"events": len(evs), "intact_rejected": intact, "with_dropped_commit_rejected": dropped4}
    ok4 = intact == [] and bool(dropped4)
    ok3 = ok3 and ok4
    REPORT["binding"] = out
    print(json.dumps(out, indent=1))
    return ok1 and ok2 and ok3

def coverage():
    out = {}
    ok = True
    for mod, cfg in (("BitLengthSets", "BLS_tree_quick.cfg"), ("BitLengthSets", "BLS_pool_quick.cfg"), ("BitLengthSets", "BLS_lemma_quick.cfg"),
                     ("MC_Statements", "Stmt_all_quick.cfg"), ("Layout", "Layout_deep_quick.cfg"), ("Wire", "Wire_types_quick.cfg"),
                     ("Evolve", "Evolve_quick.cfg"), ("Reader", "Reader_files2_bodies.cfg"), ("Namespaces", "NS_tree_quick.cfg"),
                     ("Namespaces", "NS_dirs.cfg"), ("CrossDef", "CrossDef_pairs.cfg"), ("Paths", "Paths.cfg"), ("Expr", "Expr_kinds.cfg"),
                     ("Constants", "Constants.cfg"), ("Rules", "Rules_quick.cfg"), ("MC_Funnel", "Funnel_mut1.cfg"), ("Values", "Values_acc_quick.cfg"),
                     ("Floats", "Floats_boundary.cfg"), ("Layout", "Layout_sessions.cfg"), ("MC_Statements", "Stmt_scope_thorough.cfg"),
                     ("CrossDef", "CrossDef_chain3.cfg"), ("Reader", "Reader_files2_dups.cfg"), ("Wire", "Wire_values_quick.cfg")):
        r = tlc.run(mod, cfg, coverage=True, tag="selfcov", timeout=1800)
        # actions switched off by a constant of that configuration
        by_config = {("CrossDef_pairs.cfg", "Third"), ("Expr_kinds.cfg", "Pick2"), ("CrossDef_pairs.cfg", "ChainFirst"), ("CrossDef_pairs.cfg", "ChainNext"),
                     ("CrossDef_chain3.cfg", "First"), ("CrossDef_chain3.cfg", "Second"), ("CrossDef_chain3.cfg", "Third"),
                     ("Layout_sessions.cfg", "Init"), ("Layout_sessions.cfg", "Pick"), ("Layout_sessions.cfg", "Grow"), ("Layout_sessions.cfg", "BInit"), ("Layout_sessions.cfg", "BNext"),
                     ("Layout_deep_quick.cfg", "SInit"), ("Layout_deep_quick.cfg", "SPickA"), ("Layout_deep_quick.cfg", "SPickB"),
                     ("Wire_types_quick.cfg", "X"), ("Values_acc_quick.cfg", "PickA"), ("Values_acc_quick.cfg", "PickB"), ("Values_acc_quick.cfg", "PInit")}
        never = sorted(k for k, v in r.coverage.items() if v[1] == 0 and (cfg, k) not in by_config)
        out[cfg] = {"actions": {k: v[1] for k, v in r.coverage.items()}, "never_taken": never, "distinct_states": r.distinct}
        ok = ok and not never and r.distinct > 1
        tlc.cleanup(r)
        print(cfg, out[cfg]["actions"], "NEVER:", never)
    REPORT["coverage"] = out
    return ok

def seeded(ids):
    out = {}
    ok = True
    for d in sorted((VERIF / "seeded").iterdir()):
        if ids and d.name not in ids:
            continue
        prop = json.loads((d / "meta.json").read_text())["property"]
        p = subprocess.run([str(VERIF / "tools" / "seedtest.py"), "run", d.name, prop], capture_output=True, text=True)
        line = next((l for l in p.stdout.splitlines() if l.startswith(d.name)), "")
        det = "'rc': 1" in line
        out[d.name] = {"check": prop, "detected": det}
        ok = ok and det
        print(d.name, prop, "detected" if det else "MISSED", flush=True)
    REPORT["seeded"] = out
    return ok

if __name__ == "__main__":
    a = sys.argv[1:] or ["all"]
    t0 = time.time()
    res = {}
    if a[0] in ("asfound-specs", "all"):
        res["asfound_specs"] = asfound_specs()
    if a[0] in ("binding", "all"):
        res["binding"] = binding()
    if a[0] in ("coverage", "all"):
        res["coverage"] = coverage()
    if a[0] in ("seeded", "all"):
        res["seeded"] = seeded(set(a[1:]))
    REPORT["summary"] = res
    REPORT["wall_s"] = round(time.time() - t0, 1)
    p = VERIF / "selftest_report.json"
    old = json.loads(p.read_text()) if p.exists() else {}
    old.update(REPORT)
    p.write_text(json.dumps(old, indent=1, default=str) + "\n")
    print("SELFTEST", res)
    sys.exit(0 if all(res.values()) else 1)
