#!/bin/sh
# Run checks against the pinned (as-found) commit of /repo, before any fix: commit. Usage: tools/asfound.sh C03 C17 ...
D=$(mktemp -d /tmp/asfound-XXXX)
git -C /repo archive 9232823 | tar -x -C "$D"
for c in "$@"; do
  VERIF_REPO="$D" VERIF_NO_EVIDENCE=1 /verif/check "$c" --tier quick 2>&1 | grep -E "^VIOLATION|^  \{|^KNOWN|tier=" | awk 'length($0)>330{$0=substr($0,1,330)}1' | head -${ASFOUND_LINES:-7}
done
rm -rf "$D"
