#!/venv/bin/python
"""Seeded-change bookkeeping.

  seedtest.py import <dir with patch.diff demo.py meta.json> <name>   confirm (tests pass, demo FAILs with / PASSes without) and keep as /verif/seeded/<name>/
  seedtest.py run <name> <check id> [...] [--tier quick]                 run checks against a scratch copy of /repo with the patch applied
Scratch copies live under /tmp and are removed afterwards.
"""
import json, os, shutil, subprocess, sys, tempfile, time
from pathlib import Path
VERIF = Path(__file__).resolve().parent.parent
ENV = dict(os.environ, PYTHONDONTWRITEBYTECODE="1")

def scratch(patch: Path | None):
    d = Path(tempfile.mkdtemp(prefix="seed-"))
    subprocess.run("git -C /repo archive HEAD | tar -x -C %s" % d, shell=True, check=True)
    if patch is not None:
        p = subprocess.run(["git", "apply", "--whitespace=nowarn", str(patch)], cwd=d, capture_output=True, text=True)
        if p.returncode != 0:
            p = subprocess.run(["patch", "-p1", "--fuzz=3", "-i", str(patch)], cwd=d, capture_output=True, text=True)
            if p.returncode != 0:
                shutil.rmtree(d)
                raise SystemExit("patch does not apply: %s" % (p.stdout + p.stderr))
    return d

def tests(d):
    p = subprocess.run(["/venv/bin/python", "-m", "pytest", "-q", "-p", "no:cacheprovider", "-x"], cwd=d,
                       env=dict(ENV, PYTHONPATH=str(d)), capture_output=True, text=True)
    return p.returncode == 0, p.stdout.strip().splitlines()[-1] if p.stdout.strip() else p.stderr[-300:]

def demo(d, demo_py):
    p = subprocess.run(["/venv/bin/python", str(demo_py)], cwd=tempfile.gettempdir(), env=dict(ENV, PYTHONPATH=str(d)),
                       capture_output=True, text=True, timeout=600)
    return p.returncode, (p.stdout + p.stderr).strip()[-300:]

def cmd_import(src, name):
    src = Path(src)
    meta = json.loads((src / "meta.json").read_text())
    d = scratch(src / "patch.diff")
    try:
        ok, tail = tests(d)
        rc_with, out_with = demo(d, src / "demo.py")
    finally:
        shutil.rmtree(d)
    d = scratch(None)
    try:
        rc_without, out_without = demo(d, src / "demo.py")
    finally:
        shutil.rmtree(d)
    print("tests with patch: %s (%s); demo with patch rc=%d; without rc=%d" % (ok, tail, rc_with, rc_without))
    if not (ok and rc_with != 0 and rc_without == 0):
        print("NOT CONFIRMED - not kept:", out_with, "|", out_without)
        return 1
    dst = VERIF / "seeded" / name
    dst.mkdir(parents=True, exist_ok=True)
    shutil.copy(src / "patch.diff", dst / "patch.diff")
    shutil.copy(src / "demo.py", dst / "demo.py")
    meta.update({"confirmed": {"tests_with_patch": tail, "demo_with_patch_rc": rc_with, "demo_without_patch_rc": rc_without,
                               "how": "scratch copy of /repo HEAD (git archive), PYTHONPATH=<copy>, pytest -q -x; demo.py"},
                 "detected_by": meta.get("detected_by", {})})
    (dst / "meta.json").write_text(json.dumps(meta, indent=1) + "\n")
    print("kept as", dst)
    return 0

def cmd_run(name, checks, tier):
    dst = VERIF / "seeded" / name
    d = scratch(dst / "patch.diff")
    results = {}
    try:
        for c in checks:
            t0 = time.time()
            p = subprocess.run([str(VERIF / "check"), c, "--tier", tier], cwd=VERIF,
                               env=dict(ENV, VERIF_REPO=str(d), VERIF_NO_EVIDENCE="1"), capture_output=True, text=True)
            viol = [l for l in p.stdout.splitlines() if l.startswith("VIOLATION")]
            results[c] = {"rc": p.returncode, "violations": len(viol), "wall_s": round(time.time() - t0, 1)}
            print(name, c, results[c], (viol[:1] or [""])[0])
            for l in p.stdout.splitlines():
                if l.startswith("  {"):
                    print("   ", l[:400])
                    break
            if p.returncode == 2:
                print(p.stderr[-1500:])
    finally:
        shutil.rmtree(d)
    mp = dst / "meta.json"
    meta = json.loads(mp.read_text())
    meta.setdefault("detected_by", {}).update({c: ("detected" if r["rc"] == 1 else "missed" if r["rc"] == 0 else "machinery failure")
                                               + " (%s, %d violations)" % (tier, r["violations"]) for c, r in results.items()})
    mp.write_text(json.dumps(meta, indent=1) + "\n")
    return 0

def cmd_reconfirm(names):
    """Re-confirm stored seeds against /repo HEAD: patch applies, tests pass with it, demo fails with / passes without."""
    head = subprocess.run(["git", "-C", "/repo", "rev-parse", "--short", "HEAD"], capture_output=True, text=True).stdout.strip()
    clean = scratch(None)
    try:
        for name in names:
            dst = VERIF / "seeded" / name
            try:
                d = scratch(dst / "patch.diff")
            except SystemExit as ex:
                print(name, "PATCH DOES NOT APPLY", str(ex)[:100])
                continue
            try:
                ok, tail = tests(d)
                rc_with, _o = demo(d, dst / "demo.py")
            finally:
                shutil.rmtree(d)
            rc_without, _o = demo(clean, dst / "demo.py")
            good = ok and rc_with != 0 and rc_without == 0
            print(name, "confirmed" if good else "NOT CONFIRMED", "tests=%s demo_with=%d demo_without=%d" % (ok, rc_with, rc_without))
            mp = dst / "meta.json"
            meta = json.loads(mp.read_text())
            meta["confirmed"] = {"tests_with_patch": tail, "demo_with_patch_rc": rc_with, "demo_without_patch_rc": rc_without,
                                 "repo_head": head, "valid": good,
                                 "how": "scratch copy of /repo HEAD (git archive), PYTHONPATH=<copy>, pytest -q -x; demo.py"}
            mp.write_text(json.dumps(meta, indent=1) + "\n")
    finally:
        shutil.rmtree(clean)
    return 0

def cmd_batch(out_dir, prop, checks):
    """Import every sub-directory (A, B, C ...) of out_dir as the next free <prop>-<n> and run the checks against each."""
    out_dir = Path(out_dir)
    names = []
    for sub in sorted(p for p in out_dir.iterdir() if p.is_dir() and (p / "patch.diff").exists()):
        n = 1
        while (VERIF / "seeded" / ("%s-%d" % (prop, n))).exists():
            n += 1
        name = "%s-%d" % (prop, n)
        if cmd_import(sub, name) == 0:
            names.append(name)
    for name in names:
        cmd_run(name, checks or [prop], "quick")
    return 0

if __name__ == "__main__":
    a = sys.argv[1:]
    if a and a[0] == "reconfirm":
        sys.exit(cmd_reconfirm(a[1:] or sorted(p.name for p in (VERIF / "seeded").iterdir() if p.is_dir())))
    if a and a[0] == "batch":
        sys.exit(cmd_batch(a[1], a[2], a[3:]))
    if a and a[0] == "import":
        sys.exit(cmd_import(a[1], a[2]))
    if a and a[0] == "run":
        tier = "quick"
        if "--tier" in a:
            i = a.index("--tier"); tier = a[i + 1]; del a[i:i + 2]
        sys.exit(cmd_run(a[1], a[2:], tier))
    print(__doc__)
