"""C10 - namespace reading is complete, ordered and deterministic.

TLC: Namespaces.tla - Complete / OnePerFile / Sorted / OrderIndependent (every enumeration order of the glob + set
pipeline yields the same list) over directory trees with nested namespaces, .dsdl and .uavcan files and several versions;
DirsRejected over argument lists (spelling x resolved directory) of an abstract file system;
Reader.tla (Entry "files") - DirectIsTargets / TransitiveIsClosureMinusTargets for every target subset.
Binding A: each state materialised and read; read_files compared with the specification AND with read_namespace's types
for the same files; directory arguments spelled absolute / relative / through a symlink / duplicated / reordered;
the same namespaces re-read in subprocesses under different PYTHONHASHSEED values.
"""
from __future__ import annotations
import json, os, subprocess, sys
from .. import core, tlc, tlaval, dsdlio, reader_replay as rr
from . import c02

def _rel(f, lname="k"):
    ns = ["r" if f["root"] == "t" else lname] + ["n%d" % (i + 1) for i in range(f["depth"])]
    return "%s/%s/%s.%d.%d.%s" % ("troot" if f["root"] == "t" else "lroot", "/".join(ns), f["name"], f["maj"], f["min"], f["ext"])

@core.safe
def tree_worker(arg):
    block, seed, mod = arg
    if not core.sampled(block, mod):
        return None
    st = tlaval.parse_state_block(block)
    files, out = st["case"]["files"], st["out"]
    # the lookup directory provides another root namespace ("k") or - allowed by default - one of the SAME name ("r"):
    # either way none of its files belongs to the result (the specification's Globbed(files, "t"))
    lname = "r" if core.pick(block, "lookup-name", 2) else "k"
    fs = {_rel(f, lname): "@sealed\n" for f in files}
    fs.setdefault("troot/r/.keep", "")
    fs.setdefault("lroot/%s/.keep" % lname, "")
    exp = [(".".join(["r"] + ["n%d" % (i + 1) for i in range(f["depth"])] + [f["name"]]), f["maj"], f["min"], _rel(f)) for f in out]
    diff = []
    with dsdlio.Tree(fs, "c10t") as tr:
        status, res, _ = dsdlio.read_ns(tr.path("troot/r"), [tr.path("lroot/" + lname)])
        if status != "ok":
            diff.append(("rejected", dsdlio.err_info(res)))
        else:
            got = [(t.full_name, t.version.major, t.version.minor, os.path.relpath(str(t.source_file_path), str(tr.root))) for t in res]
            if got != exp:
                diff.append(("read_namespace result", got, exp))
            if any(str(t.source_file_path_to_root) != str(tr.path("troot/r").resolve()) for t in res):
                diff.append(("source_file_path_to_root", [str(t.source_file_path_to_root) for t in res]))
    r = {"nt": len(exp) >= 2, "key": core.jhash(tlaval.to_json(files))}
    if diff:
        r["bad"] = {"kind": "tree", "case": tlaval.to_json(files), "files": sorted(fs), "lookup_namespace": lname, "diff": diff}
    return r

def _dname(d):
    return "/".join(d)

@core.safe
def dirs_worker(arg):
    import pydsdl
    block, seed = arg
    st = tlaval.parse_state_block(block)
    if st["ph"] != 1:
        return None
    c, rejected = st["case"], st["out"]
    all_dirs = [("w", "a"), ("w", "b"), ("w", "a", "n"), ("w", "Ab"), ("w", "aB"), ("v", "a"), ("w", "B"), ("w", "a-x", "c")]
    fs = {_dname(d) + "/T.1.0.dsdl": "@sealed\n" for d in all_dirs}
    for d in all_dirs:      # a reference inside every namespace: a directory listed twice under two spellings would be ambiguous
        fs[_dname(d) + "/U.1.0.dsdl"] = "T.1.0 t\n@sealed\n"
    diff = []
    with dsdlio.Tree(fs, "c10d") as tr:
        os.makedirs(tr.path("links"), exist_ok=True)
        for d in all_dirs:
            os.symlink(tr.path(_dname(d)), tr.path("links/" + "_".join(d)))
        def spell(a):
            d = tuple(a["dir"])
            if a["sp"] == "abs":
                return str(tr.path(_dname(d)))
            if a["sp"] == "rel":
                return os.path.relpath(str(tr.path(_dname(d))), os.getcwd())
            return str(tr.path("links/" + "_".join(d)))
        cwd = os.getcwd()
        os.chdir(tr.path("w"))
        try:
            root = spell(c["root"])
            lookups = [spell(a) for a in c["lookups"]]
            if core.pick(block, "iterable", 3) == 2:
                lookups = (x for x in list(lookups))          # a one-shot iterable is an Iterable too
            try:
                res = pydsdl.read_namespace(root, lookups, allow_root_namespace_name_collision=bool(c["allow"]))
                got = ("ok", [(t.full_name, os.path.relpath(str(t.source_file_path), str(tr.root.resolve()))) for t in res])
            except pydsdl.InvalidDefinitionError as ex:
                got = ("rejected", type(ex).__name__)
            except Exception as ex:
                got = ("RAW", type(ex).__name__, str(ex)[:200])
        finally:
            os.chdir(cwd)
        rd = tuple(c["root"]["dir"])
        name = rd[-1]
        if rejected:
            exp = ("rejected",)
        else:
            lst = [("%s.T" % name, _dname(rd) + "/T.1.0.dsdl"), ("%s.U" % name, _dname(rd) + "/U.1.0.dsdl")]
            if rd == ("w", "a"):
                lst += [("a.n.T", "w/a/n/T.1.0.dsdl"), ("a.n.U", "w/a/n/U.1.0.dsdl")]
            exp = ("ok", sorted(lst))
        if got[0] != exp[0] or (exp[0] == "ok" and got[1] != exp[1]):
            diff.append(("read_namespace with these directory arguments", got, exp))
    r = {"nt": len(c["lookups"]) >= 1, "key": core.jhash(tlaval.to_json(c))}
    if diff:
        r["bad"] = {"kind": "dirs", "case": tlaval.to_json(c), "diff": diff}
    return r

@core.safe
def files_vs_namespace_worker(arg):
    """read_files for a target subset agrees with the specification and with read_namespace's types."""
    import pydsdl
    block, mod = arg
    if not core.sampled(block, mod):
        return None
    st = tlaval.parse_state_block(block)
    if st["ph"] != 2:
        return None
    case, out = rr._case(st), st["out"]
    exp = rr.expected(out)
    diff = []
    with dsdlio.Tree(rr.files_of(case), "c10f") as tr:
        root = str(tr.root)
        lookups = [tr.path("d2/b"), tr.path("d3/a")]
        targets = [tr.path(rr.relpath(d)) for d in case["defs"] if rr.idkey(d) in {rr.idkey(t) for t in case["targets"]}]
        relative = core.pick(block, "relative", 2) == 1      # the same relative spellings, from the root of each scratch tree, case after case
        old_cwd = os.getcwd()
        try:
            if relative:
                os.chdir(root)
                direct, transitive = pydsdl.read_files([os.path.relpath(str(t), root) for t in targets], ["d1/a"], ["d2/b", "d3/a"],
                                                       allow_unregulated_fixed_port_id=True)
            else:
                direct, transitive = pydsdl.read_files(targets, [tr.path("d1/a")], lookups, allow_unregulated_fixed_port_id=True)
            ok = True
        except pydsdl.InvalidDefinitionError:
            ok = False
        except Exception as ex:
            ok = None
            diff.append(("exception", type(ex).__name__, str(ex)[:200]))
        finally:
            os.chdir(old_cwd)
        if ok is not None and ok != exp["ok"]:
            diff.append(("accepted", ok, exp["ok"]))
        if ok and exp["ok"]:
            gd = [rr.comp_id(root, t) for t in direct]
            gt = [rr.comp_id(root, t) for t in transitive]
            if gd != exp["direct"]:
                diff.append(("direct", gd, exp["direct"]))
            if gt != exp["transitive"]:
                diff.append(("transitive", gt, exp["transitive"]))
            if set(gd) & set(gt):
                diff.append(("direct and transitive overlap", sorted(set(gd) & set(gt))))
            key = lambda t: (t.full_name, -t.version.major, -t.version.minor)
            if [key(t) for t in direct] != sorted(key(t) for t in direct) or [key(t) for t in transitive] != sorted(key(t) for t in transitive):
                diff.append(("not sorted", [str(t) for t in direct], [str(t) for t in transitive]))
            # the same files through read_namespace: equal types
            try:
                ns_types = {rr.comp_id(root, t): t for t in pydsdl.read_namespace(tr.path("d1/a"), lookups, allow_unregulated_fixed_port_id=True)}
                for t in direct:
                    u = ns_types.get(rr.comp_id(root, t))
                    if u is None or u != t or hash(u) != hash(t) or str(u) != str(t) or set(u.bit_length_set) != set(t.bit_length_set):
                        diff.append(("read_files type differs from read_namespace's", str(t)))
            except pydsdl.InvalidDefinitionError:
                pass          # another file of the namespace is faulty: nothing to compare with
    r = {"nt": len(case["defs"]) >= 2, "key": core.jhash(tlaval.to_json(st["case"]))}
    if diff:
        r["bad"] = {"kind": "files", "case": tlaval.to_json(st["case"]), "diff": diff}
    return r

_SEED_PROBE = r'''
import sys, json, os
sys.path.insert(0, sys.argv[1]); sys.dont_write_bytecode = True
import pydsdl
root = sys.argv[2]
def proj(ts): return [(t.full_name, t.version.major, t.version.minor, [ (f.name, str(f.data_type)) for f in t.fields ]) for t in ts]
out = {}
out["ns"] = proj(pydsdl.read_namespace(root + "/d1/a", [root + "/d2/b", root + "/d3/c"]))
out["ns_swapped"] = proj(pydsdl.read_namespace(root + "/d1/a", [root + "/d3/c", root + "/d2/b", root + "/d2/b", root + "/d1/a"]))
d, t = pydsdl.read_files([root + "/d1/a/Q.1.0.dsdl", root + "/d1/a/n/P.1.0.dsdl"], [root + "/d1/a"], [root + "/d2/b", root + "/d3/c"])
out["files"] = [proj(d), proj(t)]
d, t = pydsdl.read_files([root + "/d1/a/n/P.1.0.dsdl", root + "/d1/a/Q.1.0.dsdl", root + "/d1/a/Q.1.0.dsdl"], [root + "/d1/a"], [root + "/d3/c", root + "/d2/b"])
out["files_swapped"] = [proj(d), proj(t)]
print(json.dumps(out))
'''

def hash_seed_part(ctx):
    fs = {"d1/a/Q.1.0.dsdl": "b.R.1.0 r\nc.S.1.1 s\na.n.P.1.0 p\n@sealed\n", "d1/a/Q.1.1.dsdl": "b.R.1.0 r\nc.S.1.1 s\na.n.P.1.0 p\nuint8 extra\n@sealed\n".replace("@sealed", "@sealed"),
          "d1/a/n/P.1.0.dsdl": "b.R.1.0 r\nb.m.U.2.0[<=2] u\n@sealed\n", "d1/a/n/P.0.1.uavcan": "@sealed\n", "d1/a/Z.1.0.dsdl": "c.S.1.0 s\n@sealed\n",
          "d2/b/R.1.0.dsdl": "b.m.U.2.0 u\n@sealed\n", "d2/b/m/U.2.0.dsdl": "uint8 x\n@sealed\n", "d2/b/Unused.1.0.dsdl": "@sealed\n",
          "d3/c/S.1.1.dsdl": "uint8 a\n@sealed\n", "d3/c/S.1.0.dsdl": "uint8 a\n@sealed\n"}
    # Q.1.0 and Q.1.1 must have equal extents (major 1): make both delimited with the same extent
    fs["d1/a/Q.1.0.dsdl"] = "b.R.1.0 r\nc.S.1.1 s\na.n.P.1.0 p\n@extent 1024\n"
    fs["d1/a/Q.1.1.dsdl"] = "b.R.1.0 r\nc.S.1.1 s\na.n.P.1.0 p\nuint8 extra\n@extent 1024\n"
    seeds = [0, 1, 2, 3, 12345] if ctx.tier == "quick" else list(range(0, 24))
    with dsdlio.Tree(fs, "c10h") as tr:
        outs = {}
        for s in seeds:
            p = subprocess.run([sys.executable, "-c", _SEED_PROBE, str(core.REPO), str(tr.root)], capture_output=True, text=True,
                               env=dict(os.environ, PYTHONHASHSEED=str(s), PYTHONDONTWRITEBYTECODE="1"), timeout=300)
            if p.returncode != 0:
                ctx.violation({"kind": "hash-seed", "case": {"seed": s}, "diff": [("probe failed", p.stderr[-400:])]})
                continue
            outs[s] = json.loads(p.stdout)
            ctx.count()
            ctx.traces += 1
        ref = outs.get(seeds[0])
        for s, o in outs.items():
            if o != ref:
                ctx.violation({"kind": "hash-seed", "case": {"seed": s, "files": sorted(fs)}, "diff": [("result differs from seed %d" % seeds[0], o, ref)]})
            if o["ns"] != o["ns_swapped"] or o["files"] != o["files_swapped"]:
                ctx.violation({"kind": "argument-order", "case": {"seed": s, "files": sorted(fs)},
                               "diff": [("result depends on order / duplication of directory or file arguments", o)]})
        if ref:
            names = [x[0:3] for x in ref["ns"]]
            if names != [["a.Q", 1, 1], ["a.Q", 1, 0], ["a.Z", 1, 0], ["a.n.P", 1, 0], ["a.n.P", 0, 1]]:
                ctx.violation({"kind": "hash-seed", "case": {"files": sorted(fs)}, "diff": [("read_namespace list", names)]})
            ctx.nontriv("hashseed")

# Two files of one name and version inside the root namespace ("twins": the legacy suffix, a port-ID prefix): both are definition
# files of the namespace.  Bodies: equal / same layout but another field name, constant or comment / another layout.
TWIN_SECOND = ["T.1.0.uavcan", "7000.T.1.0.dsdl"]
TWIN_BODIES = {"equal": "uint8 a\n@sealed\n", "field-name": "uint8 b\n@sealed\n", "constant": "uint8 a\nuint8 K = 1\n@sealed\n",
               "comment": "# other\nuint8 a\n@sealed\n", "layout": "uint16 a\n@sealed\n", "kind": "uint8 a\n@sealed\n---\n@sealed\n",
               "extent": "uint8 a\n@extent 64\n"}

def twin_worker(arg):
    """read_namespace over a root with twin files under several hash seeds (subprocesses): the outcome must not vary with the seed,
    and an accepted namespace yields one composite per definition file."""
    import subprocess, sys, json
    second, body = arg
    fs = {"vnd/T.1.0.dsdl": "uint8 a\n@sealed\n", "vnd/" + second: TWIN_BODIES[body], "vnd/Other.1.0.dsdl": "@sealed\n"}
    prog = ("import sys, json; sys.path.insert(0, sys.argv[1]); sys.dont_write_bytecode = True\nimport pydsdl, logging\n"
            "logging.disable(logging.CRITICAL)\n"
            "try:\n    r = pydsdl.read_namespace(sys.argv[2], allow_unregulated_fixed_port_id=True)\n"
            "    print(json.dumps(['ok', [[t.full_name, t.source_file_path.name, [f.name for f in t.fields], [c.name for c in t.constants], t.doc, t.fixed_port_id] for t in r]]))\n"
            "except pydsdl.InvalidDefinitionError as ex:\n    print(json.dumps(['ide', type(ex).__name__]))\n"
            "except Exception as ex:\n    print(json.dumps(['raw', type(ex).__name__, str(ex)[:200]]))\n")
    outs = []
    with dsdlio.Tree(fs, "c10tw") as tr:
        for seed in (0, 1, 2, 3, 7, 11):
            p = subprocess.run([sys.executable, "-c", prog, str(core.REPO), tr.path("vnd")], capture_output=True, text=True,
                               env=dict(os.environ, PYTHONHASHSEED=str(seed), OPENCYPHAL_PYDSDL_VERIF=""), timeout=120)
            if p.returncode != 0 or not p.stdout.strip():
                return {"harness_exception": "twin subprocess failed: %s" % p.stderr[-300:]}
            outs.append(json.loads(p.stdout.strip().splitlines()[-1]))
    diff = []
    if any(o != outs[0] for o in outs):
        diff.append(("the outcome varies with the hash seed", [o for o in outs if o != outs[0]][0], outs[0]))
    for o in outs:
        if o[0] == "raw":
            diff.append(("exception other than InvalidDefinitionError", o))
            break
        if o[0] == "ok" and sorted(x[1] for x in o[1]) != sorted(["T.1.0.dsdl", os.path.basename(second), "Other.1.0.dsdl"]):
            diff.append(("accepted, but not one composite per definition file", sorted(x[1] for x in o[1])))
            break
    r = {"nt": True, "key": core.jhash([second, body])}
    if diff:
        # twins whose composites compare equal (name, version, layout) are merged silently - see known_findings.json
        r["bad"] = {"kind": "twin-files", "same_layout": body in ("equal", "field-name", "constant", "comment"),
                    "case": {"second": second, "body": body}, "diff": diff}
    return r

def run(ctx):
    ctx.rule = ("TLC enumerates (1) directory trees of <= MaxFiles files over root/lookup x depth 0-2 x names x versions x "
                ".dsdl/.uavcan with every enumeration order of the glob/set pipeline, (2) directory argument lists "
                "(root, <= 2 lookups, 7 resolved directories incl. nested, case variants, same name under another parent) "
                "x 3 spellings x allow flag, (3) read_files target subsets over Reader configurations. Each state is "
                "materialised and read; lists compared exactly (names, versions, source paths, order). The same namespace "
                "is re-read under 5 (quick) / 24 (thorough) hash seeds and with reordered / duplicated arguments; histories of two "
                "calls that pass the same list objects as directory arguments (Sessions.tla, one process per history) return what each call returns alone. "
                "Non-trivial = at least two files / one lookup argument / two definitions")
    ctx.assumptions = ["file-system enumeration order cannot be forced from user space: all orders are explored on the "
                       "specification (OrderIndependent); hash-seed variation is forced in subprocesses",
                       "no case-insensitive file system in the sandbox",
                       "namespaces in which two files define the same name and version are excluded from the enumerated trees; a fixed family of such twins is read under six hash seeds"]
    quick = ctx.tier == "quick"
    c02.run_cfg(ctx, "Namespaces", "NS_tree_quick.cfg" if quick else "NS_tree_thorough.cfg", tree_worker, "tree",
                mk=lambda blocks: [(b, ctx.seed, 6 if quick else 8) for b in blocks])
    c02.run_cfg(ctx, "Namespaces", "NS_dirs.cfg", dirs_worker, "dirs",
                mk=lambda blocks: [(b, ctx.seed) for b in blocks if (not quick) or core.sampled(b, 3)])
    c02.run_cfg(ctx, "Reader", "Reader_files2.cfg", files_vs_namespace_worker, "files2", mk=lambda blocks: [(b, 2 if quick else 1) for b in blocks])
    c02.run_cfg(ctx, "Reader", "Reader_files3_lean_two.cfg" if quick else "Reader_files3_lean.cfg", files_vs_namespace_worker, "files3",
                mk=lambda blocks: [(b, 16 if quick else 6) for b in blocks])
    ctx.exhaustive = False
    hash_seed_part(ctx)
    c02.consume(ctx, core.pmap(twin_worker, [(a, b) for a in TWIN_SECOND for b in TWIN_BODIES], chunksize=1), "twins")
    # directory arguments are inputs, not state: histories of calls (Sessions.tla) in which the calls pass one and the same list
    # objects - each call must return what it returns alone
    from .. import session_replay
    c02.run_cfg(ctx, "Sessions", "Sessions_quick.cfg", session_replay.worker, "sess",
                mk=lambda blocks: [(b, 6, 3 if quick else 1) for b in blocks])
    ctx.sample({"tree": ["troot/r/P.1.0.dsdl", "troot/r/n1/P.1.1.uavcan", "lroot/k/Q.2.0.dsdl"], "expected": ["r.P.1.0", "r.n1.P.1.1"]})

def replay(ctx, rec):
    print("replay: re-run ./check %s --tier %s --seed %s (cases are enumerated by TLC)" % (ctx.pid, rec.get("tier"), rec.get("seed")))
    return 0
