"""C04 - constant expressions evaluate exactly, with the Specification's precedence.

TLC: Expr.tla / ExprOps.tla - exact rational evaluation, set semantics, the table of undefined combinations and the
precedence / associativity table (levels, LeftMin / RightMin) from which minimal-parenthesis token sequences are
derived; three enumerations: operator-pair grid, operator x operand-kind grid, type-directed trees.
Binding A: every state is rendered (minimal and fully parenthesised token sequences, literals in a random base / form,
arbitrary inter-token blanks) into `@print`, and for small positive integers also a constant initialiser, an array
capacity, `@assert` and `@extent`, and the response part of a service that redefines a constant of the request part; the printed / modelled value is compared with Eval, rejections must be
InvalidDefinitionError exactly where the specification says the expression is invalid.
"""
from __future__ import annotations
import ast as pyast
import random
from fractions import Fraction
from .. import core, tlc, tlaval, dsdlio
from . import c02

def lit_text(v, rng, dep=None):
    """dep: a one-slot holder; a non-negative integer literal may be written as the constant K of the dependency
    ns.Dep.1.0, whose file then defines K with this value (the same type name, with another value, case after case)."""
    t = v["t"]
    if t == "bool":
        return "true" if v["b"] else "false"
    if t == "str":
        return rng.choice(["'%s'", '"%s"']) % v["s"]
    if t == "type":
        return rng.choice(["", "", "saturated "]) + v["s"]
    n, d = v["n"], v["d"]
    if d == 1 and n >= 0 and dep is not None and dep.get("k") is None and rng.random() < 0.2:
        dep["k"] = n
        return rng.choice(["ns.Dep.1.0.K", "Dep.1.0.K"])
    if d == 1:
        forms = [str(n), "0x%x" % n, "0X%X" % n, "0b" + bin(n)[2:], "0o" + oct(n)[2:]]
        s = rng.choice(forms)
        if len(s) > 3 and rng.random() < 0.3 and not s.startswith("0"):
            s = s[0] + "_" + s[1:]
        if n >= 10 and rng.random() < 0.3:
            s = "_".join(str(n))
        return s
    f = Fraction(n, d)
    dec = "%s" % (f.numerator / f.denominator)           # finite for the vocabulary (halves, quarters)
    assert Fraction(dec) == f, (n, d)
    digits, places = int(dec.replace(".", "")), len(dec.split(".")[1])
    forms = [dec, dec.lstrip("0") if dec.startswith("0.") else dec, "%de-%d" % (digits, places), dec + "e0", dec + "E+0",
             "%d00e-%d" % (digits, places + 2), "%sE-1" % str(Fraction(dec) * 10).replace("/1", "") if (Fraction(dec) * 10).denominator == 1 else dec]
    return rng.choice(forms)

def render(toks, rng, blanks=True, dep=None):
    out = []
    for t in toks:
        out.append(lit_text(t, rng, dep) if isinstance(t, dict) else str(t))
    s = ""
    for i, t in enumerate(out):
        if i:
            prev = out[i - 1]
            need = (prev[-1].isalnum() or prev[-1] in "_'\"") and (t[0].isalnum() or t[0] in "_'\"")
            gap = rng.choice(["", " ", " ", "  ", "\t"]) if blanks else " "
            if need and gap == "":
                gap = " "
            if prev == "." or t == ".":
                gap = rng.choice(["", " "])
            s += gap
        s += t
    return s

def parse_value(text: str):
    """Printed value -> abstract value like the specification's."""
    text = text.strip()
    if text in ("true", "false"):
        return {"t": "bool", "b": text == "true"}
    if text.startswith("{") and text.endswith("}"):
        inner, parts, depth, cur, q = text[1:-1], [], 0, "", None
        for ch in inner:
            if q:
                cur += ch
                if ch == q:
                    q = None
                continue
            if ch in "'\"":
                q = ch
            if ch == "{":
                depth += 1
            if ch == "}":
                depth -= 1
            if ch == "," and depth == 0:
                parts.append(cur); cur = ""
            else:
                cur += ch
        if cur.strip():
            parts.append(cur)
        return {"t": "set", "e": frozenset(_freeze(parse_value(p)) for p in parts)}
    if text[:1] in "'\"":
        return {"t": "str", "s": pyast.literal_eval(text)}
    if text.startswith(("saturated ", "truncated ")):
        return {"t": "type", "s": text.split(" ", 1)[1]}
    f = Fraction(text)
    return {"t": "rat", "n": f.numerator, "d": f.denominator}

def _freeze(v):
    if v["t"] == "set":
        return ("set", v["e"])
    return tuple(sorted(v.items()))

def spec_value(v):
    if v["t"] == "set":
        return {"t": "set", "e": frozenset(_freeze(spec_value(x)) for x in v["e"])}
    return {k: v[k] for k in v}

@core.safe
def worker(arg):
    block, seed, mod = arg
    if not core.sampled(block, mod):
        return None
    st = tlaval.parse_state_block(block)
    if st["ph"] != 9:
        return None
    case, out = st["case"], st["out"]
    rng = random.Random(seed * 1000003 + (hash(block) & 0xFFFFFF))
    exp = out["v"]
    diff = []
    deps = [{"k": None}, {"k": None}, {"k": None}]
    texts = [render(out["toks"], rng, dep=deps[0]), render(out["full"], rng, dep=deps[1]), render(out["toks"], rng, blanks=False, dep=deps[2])]
    n = 0
    for k, text in enumerate(texts):
        body = "@print %s\n" % text
        extra = exp["t"] == "rat" and exp["d"] == 1 and 1 <= exp["n"] <= 64 and k == 0
        if extra:
            body += "uint64 X = %s\nuint8[<=%s] arr\n@assert %s == %d\n@extent (%s) * 800\n" % (text, text, text, exp["n"], text)
            # ... and in the response part of a service, where V denotes the response's own constant of that name
            body += "---\nuint8 V = %d\n@assert V == %s\n@assert V + 1 != %s\n@sealed\n" % (exp["n"], text, text)
            body = "uint8 V = %d\n@assert V - 1 == %s\n" % (exp["n"] + 1, text) + body
        else:
            body += "@sealed\n"
        files = {"ns/A.1.0.dsdl": body}
        if deps[k]["k"] is not None:
            files["ns/Dep.1.0.dsdl"] = "uint64 K = %d\n@sealed\n" % deps[k]["k"]
        # the documented option `strict` ("reject features that are not part of the Specification") changes nothing for
        # texts that use the Specification's features only (utf8 / byte, which postdate it, are left out)
        strict = k == 2 and "utf8" not in body and "byte" not in body
        with dsdlio.Tree(files, "c04") as tr:
            status, res, prints = dsdlio.read_ns(tr.path("ns"), **({"strict": True} if strict else {}))
        n += 1
        if exp["t"] == "skip":
            continue          # outside the magnitudes the specification evaluates: not judged here (totality is C13's concern)
        if status == "err":
            info = dsdlio.err_info(res)
            if not info["ide"]:
                diff.append(("exception other than InvalidDefinitionError", text, info["cls"], info["text"][:150]))
            elif exp["t"] not in ("err", "skip"):
                diff.append(("valid expression rejected", text, info["cls"], info["text"][-120:]))
            continue
        if exp["t"] == "err":
            diff.append(("invalid expression accepted", text, prints[0][2] if prints else None))
            continue
        if exp["t"] == "skip":
            continue
        got = parse_value(prints[0][2])
        if got != spec_value(exp):
            diff.append(("value", text, prints[0][2], tlaval.to_json(exp)))
        if extra:
            t = [x for x in res if x.short_name == "A"][0].request_type
            c = [k_ for k_ in t.constants if k_.name == "X"][0].value.native_value
            cap = t.fields[0].data_type.capacity
            if c != exp["n"] or cap != exp["n"] or t.extent != exp["n"] * 800:
                diff.append(("constant / capacity / extent context", text, str(c), cap, t.extent, exp["n"]))
    r = {"nt": exp["t"] not in ("err", "skip"), "key": core.jhash(tlaval.to_json(case)), "n": n, "skip": exp["t"] == "skip"}
    if diff:
        r["bad"] = {"kind": "expr", "case": tlaval.to_json(case), "diff": diff[:4], "expected": tlaval.to_json(exp)}
    return r

@core.safe
def extras_worker(seed):
    """Things TLC does not hold: string concatenation / NFC equality, wide integers, literal forms."""
    diff = []
    cases = [("'ab' + 'cd' == 'abcd'", "true"), ("'a' + 'b' != 'ab'", "false"), ("{'a'} + 'b' == {'ab'}", "true"),
             ("'x' + {'a', 'b'} == {'xa', 'xb'}", "true"), ("'caf\\u00e9' == 'cafe\\u0301'", "true"),
             ("2 ** 64 - 1", str(2 ** 64 - 1)), ("-(2 ** 63)", str(-2 ** 63)), ("10 ** 30 / 10 ** 28", "100"),
             ("1 / 3 + 1 / 6", "1/2"), ("'\\U0001F600' == '\\U0001f600'", "true"), ("'\\u00e9\\n\\t\\r\\\\\\'\\\"' != ''", "true"), ("0.1 + 0.2 == 0.3", "true"), ("1e3", "1000"), ("1_000.5e-1", "2001/20"),
             ("0x_ff + 0b_1 + 0o_7", str(255 + 1 + 7)), ("7 % -3", "-2"), ("-7 % 3", "2"), ("-7 / 2", "-7/2"),
             ("(-6) & 5", "0"), ("(-6) | 5", "-1"), ("(-6) ^ 5", "-1"), ("6 & 3 | 8 ^ 1", str(6 & 3 | 8 ^ 1)),
             ("{1, 2, 3}.max - {1, 2, 3}.min + {1, 2, 3}.count", "5"), ("{{1}, {1, 2}}.count", "2"),
             # powers with a non-integer exponent whose value is an exactly representable rational
             ("1e-3", "1/1000"), ("300000e-5", "3"), ("1e-3 * 1000 == 1", "true"), ("25e-1", "5/2"), ("1.5e-2", "3/200"), ("7E-1 + 3e-1", "1"),
             ("4 ** 0.5", "2"), ("4 ** 30.5", str(2 ** 61)), ("(1/4) ** 12.5 == 1 / 2 ** 25", "true"), ("0.25 ** 0.5", "1/2"),
             ("16 ** 0.75", "8"),
             # results of fractional powers and dyadic fractions that need more digits than a float's shortest repr carries
             ("(2 ** 200) ** (1/2)", str(2 ** 100)), ("(2 ** 120) ** 0.5", str(2 ** 60)), ("(2 ** -80) ** 0.5 == 1 / 2 ** 40", "true"),
             ("(2 ** -80) ** 0.5", "1/%d" % 2 ** 40), ("1 + 2 ** -52", "%d/%d" % (2 ** 52 + 1, 2 ** 52)), ("3 * 2 ** -60", "3/%d" % 2 ** 60),
             ("(1 + 2 ** -52) * 2 ** 52", str(2 ** 52 + 1)), ("1 / 3 * 10 ** 20", "%d/3" % 10 ** 20), ("(3 ** 40) ** 0.5", str(3 ** 20)),
             ("2 ** -1074", "1/%d" % 2 ** 1074), ("0.1", "1/10"), ("1e-20 + 1", "%d/%d" % (10 ** 20 + 1, 10 ** 20))]
    # identifiers: constants of every type read by name, in particular those whose value is "nothing" (false, 0, 0.0, NUL);
    # (declarations; expression)
    decl = "bool F = false\nbool T = true\nuint8 Z = 0\nint8 N = -0\nfloat32 R = 0.0\nuint8 C = '\\u0000'\nuint8 ONE = 1\nfloat64 H = 1 / 2\n"
    cases += [(decl + "@print " + e, w) for e, w in [
        ("F", "false"), ("T", "true"), ("Z", "0"), ("N", "0"), ("R", "0"), ("C", "0"), ("ONE", "1"), ("H", "1/2"), ("!F", "true"),
        ("F || T", "true"), ("F && T", "false"), ("F == false", "true"), ("Z + ONE", "1"), ("Z == R", "true"), ("{F, T}.count", "2"),
        ("{Z, N, R, C}.count", "1"), ("Z * H + H", "1/2"), ("T && !F && Z == 0 && R == 0 && C == N", "true"), ("H ** Z", "1")]]
    for text, want in cases:
        body = "@print %s\n@sealed\n" % text if "\n" not in text else text + "\n@sealed\n"
        with dsdlio.Tree({"ns/A.1.0.dsdl": body}, "c04x") as tr:
            status, res, prints = dsdlio.read_ns(tr.path("ns"))
            status2, res2, prints2 = dsdlio.read_ns(tr.path("ns"), strict=True)
        if status2 != status or [p[2] for p in prints2] != [p[2] for p in prints]:
            diff.append(("strict=True changes the outcome of a text that uses the Specification's features only", text, str(res2)[:150]))
        if status != "ok":
            diff.append(("rejected", text, str(res)[:150]))
        elif parse_value(prints[0][2]) != parse_value(want):
            diff.append(("value", text, prints[0][2], want))
    r = {"nt": True, "key": "extras", "n": len(cases)}
    if diff:
        r["bad"] = {"kind": "expr-extras", "case": "fixed list", "diff": diff}
    return r

def consume(ctx, results, tag):
    for r in results:
        if r is None:
            continue
        if "harness_exception" in r:
            lf = core.library_failure(r)
            if lf is not None:
                ctx.violation(lf)
                continue
            raise tlc.MachineryError("replay worker failed: %s\n%s" % (r["harness_exception"], r["tb"]))
        ctx.count(r.get("n", 1))
        ctx.traces += 1
        if r.get("skip"):
            ctx.extra["skipped"] = ctx.extra.get("skipped", 0) + 1
        if r["nt"]:
            ctx.nontriv(tag + r["key"])
        if "bad" in r:
            ctx.violation(r["bad"])

def run_cfg(ctx, cfg, mod):
    res = tlc.run("Expr", cfg, dump=True, tag="c04", timeout=3000)
    ctx.add_tlc(res, cfg)
    if res.violated:
        ctx.spec_violation(res, cfg)
        tlc.cleanup(res)
        return
    blocks = tlaval.split_dump_blocks(res.dump_path)
    tlc.cleanup(res)
    consume(ctx, core.pmap(worker, [(b, ctx.seed, mod) for b in blocks], chunksize=100), cfg)

def run(ctx):
    ctx.rule = ("TLC enumerates (grid) every ordered pair of the 17 binary operators in both nestings over operand triples "
                "from {2,3,7,true,false} plus 27 unary / power / attribute mixes, (kinds) every operator with every ordered "
                "pair of 20 operand kinds (integer, zero, fraction, negative, boolean, string, rational sets, string set, set "
                "of sets (singleton, chain, incomparable), sets of strings / booleans, a data type and sets of data types, empty and heterogeneous set literals), (trees) type-directed trees of depth <= 2; each state is "
                "rendered three ways (minimal parentheses with random blanks and literal forms, full parentheses, compact) "
                "and read. Non-trivial = expected value is not an error; cases beyond 32-bit magnitudes / real exponents / "
                "negative bitwise operands are counted as skipped, not as passes; distinct by hash of the AST")
    ctx.assumptions = ["TLC's evaluation of the specification", "string concatenation, NFC equality, bitwise operators on "
                       "negative integers and wide integers are sampled by a fixed list (TLC: atomic strings, 32-bit integers)",
                       "the precedence table is transcribed from the Specification's expression grammar"]
    quick = ctx.tier == "quick"
    run_cfg(ctx, "Expr_kinds.cfg", 1)
    run_cfg(ctx, "Expr_grid.cfg", 3 if quick else 1)
    run_cfg(ctx, "Expr_trees.cfg" if quick else "Expr_trees_deep.cfg", 1 if quick else 2)
    if quick:
        ctx.exhaustive = False
    consume(ctx, core.pmap(extras_worker, [ctx.seed], procs=1), "extras")
    ctx.sample({"ast": "bin(**, un(-, 2), 3)", "minimal": "(-2) ** 3", "expected": -8})

def replay(ctx, rec):
    print("replay: re-run ./check %s --tier %s --seed %s (cases are enumerated by TLC)" % (ctx.pid, rec.get("tier"), rec.get("seed")))
    return 0
