"""C07 - deserialization is total and obeys implicit truncation / zero extension.

TLC: Wire.tla (Mode "bytes"): DecTotal, FixedPoint, TruncationIgnored, ZeroExtension over every bit string up to the
bound for every type of the universe.
Binding B': the harness calls pydsdl.deserialize on enumerated byte strings (all strings up to the bound, prefixes and
single-bit corruptions of valid representations, representations followed by junk / zeros, random strings) and TLC judges
every recorded call against the specification's decoder (WireRecords.tla).  Anything but a value, SerDesError or
ValueError is a violation outright; returned objects are re-serialised and re-read (fixed point on the real code).
"""
from __future__ import annotations
import random
from .. import core, tlc, tlaval, records, wire_replay as wr

def _strings(t, rng, tier, valid):
    """Byte strings to try against one type."""
    out = [b""]
    out += [bytes([x]) for x in range(256)]
    n2 = 600 if tier == "quick" else 1500
    out += [bytes([rng.randrange(256), rng.randrange(256)]) for _ in range(n2)]
    out += [bytes([a, b]) for a in (0, 1, 2, 3, 255) for b in (0, 1, 2, 3, 4, 128, 255)]
    for v in valid:
        for k in range(len(v) + 1):
            out.append(v[:k])                              # every prefix
        for bit in range(len(v) * 8):
            w = bytearray(v); w[bit // 8] ^= 1 << (bit % 8)
            out.append(bytes(w))                           # every single-bit corruption
        out.append(v + b"\xff")
        out.append(v + bytes(rng.randrange(256) for _ in range(rng.randrange(1, 5))))   # followed by junk
        out.append(v + b"\x00" * 5)
    for _ in range(40 if tier == "quick" else 200):
        out.append(bytes(rng.randrange(256) for _ in range(rng.randrange(3, 17))))
    for s in list(out[:300]):
        out.append(s + b"\x00")                            # zero extension
        out.append(s + b"\x00" * 5)
    return out

def carrier(b: bytes, n: int):
    """The same bytes in a buffer whose items are not bytes (a memoryview cast to 16- / 32-bit items, an array of such items)."""
    import array
    if len(b) and len(b) % 4 == 0 and n % 2 == 0:
        return memoryview(b).cast("I") if n % 4 == 0 else memoryview(array.array("I", b))
    if len(b) and len(b) % 2 == 0:
        return memoryview(b).cast("H")
    return memoryview(b)

@core.safe
def type_worker(arg):
    import pydsdl
    tjson, hdr, seed, tier, base_id = arg
    t = _unjson(tjson)
    rng = random.Random(seed)
    rt = wr.real_type(t)
    X = rt.obj
    # valid representations: serialise a few values
    valid = []
    try:
        for _ in range(4):
            v = _rand_value(t, rng)
            valid.append(pydsdl.serialize(X, wr.to_py(t, v), with_delimiter_header=hdr))
    except Exception as ex:
        return {"recs": [], "viol": [{"kind": "bytes", "case": {"ty": tjson, "hdr": hdr}, "diff": [("serialize failed", type(ex).__name__, str(ex)[:200])]}]}
    recs, viol = [], []
    seen = set()
    from pydsdl import _verif_trace
    from .. import wiretrace
    _verif_trace.drain()
    wire_recs = []
    for nstr, b in enumerate(_strings(t, rng, tier, valid)):
        if nstr % 25 == 0:          # the reader / writer steps of every 25th call are validated against TraceWire.tla
            evs = [e for e in _verif_trace.drain() if e["ev"].startswith(("rd", "wr"))]
            if evs and len(wire_recs) < 400:
                wrecs, mal = wiretrace.to_records(evs)
                wire_recs.extend(wrecs[:200])
                for m in mal:
                    viol.append({"kind": "wire-trace", "case": {"ty": tjson, "hdr": hdr}, "diff": [("malformed reader / writer event stream", m[0], str(m[1])[:200])]})
        elif nstr % 25 == 23:
            _verif_trace.drain()
        if b in seen:
            continue
        seen.add(b)
        try:
            # the byte string arrives as bytes, bytearray or memoryview (of bytes, of a bytearray, or a slice of a larger
            # buffer whose other bytes are not part of b)
            form = nstr % 7
            buf = (b if form == 0 else bytearray(b) if form == 1 else memoryview(b) if form == 2 else memoryview(bytearray(b)) if form == 3
                   else memoryview(b"\xff" + b + b"\xff\xff")[1:1 + len(b)] if form == 4 else carrier(b, form))
            o = pydsdl.deserialize(X, buf, with_delimiter_header=hdr)
            a = wr.from_py(t, o)
            if _has_nan(a):
                continue
            if _has_marker(a):
                viol.append({"kind": "bytes", "case": {"ty": tjson, "hdr": hdr, "b": b.hex()},
                             "diff": [("returned object is not valid for the type", repr(o)[:200])]})
                continue
            obs = {"ok": True, "v": tlaval.to_json(a)}
            # fixed point on the real code
            b2 = pydsdl.serialize(X, o, with_delimiter_header=hdr)
            o2 = pydsdl.deserialize(X, b2, with_delimiter_header=hdr)
            if o2 != o and repr(o2) != repr(o):     # repr: NaN compares unequal to itself; the payload is IEEE territory
                viol.append({"kind": "bytes", "case": {"ty": tjson, "hdr": hdr, "b": b.hex()},
                             "diff": [("not a fixed point", repr(o)[:150], repr(o2)[:150])]})
        except Exception as ex:
            kind = wr.classify_exc(ex)
            if kind.startswith("RAW:"):
                viol.append({"kind": "bytes", "case": {"ty": tjson, "hdr": hdr, "b": b.hex()},
                             "diff": [("exception other than SerDesError / ValueError", kind, str(ex)[:200])]})
                continue
            obs = {"ok": False, "err": kind}
        recs.append({"id": base_id + len(recs), "ty": tjson, "hdr": hdr, "b": list(b), "obs": obs})
    _verif_trace.drain()
    return {"recs": recs, "viol": viol, "wire": wire_recs}

def _has_nan(a):
    if isinstance(a, tuple):
        return a == ("?nan",) or any(_has_nan(x) for x in a)
    if isinstance(a, dict):
        return any(_has_nan(x) for x in a.values())
    return False

def _has_marker(a):
    if isinstance(a, tuple):
        return (len(a) > 0 and isinstance(a[0], str) and a[0].startswith("?")) or any(_has_marker(x) for x in a)
    if isinstance(a, dict):
        return any(_has_marker(x) for x in a.values())
    return False

def _rand_value(t, rng):
    k = t["k"]
    if k == "bool":
        return rng.random() < 0.5
    if k == "u":
        return rng.randrange(0, 1 << t["n"])
    if k == "i":
        return rng.randrange(-(1 << (t["n"] - 1)), 1 << (t["n"] - 1))
    if k == "f":
        return rng.choice([0, 15360, 49152, 31743])
    if k == "void":
        return 0
    if k == "fix":
        return tuple(_rand_value(t["e"], rng) for _ in range(t["c"]))
    if k == "var":
        return tuple(_rand_value(t["e"], rng) for _ in range(rng.randrange(0, t["c"] + 1)))
    if k == "st":
        return tuple(_rand_value(ft, rng) for ft in t["f"])
    if k == "un":
        j = rng.randrange(len(t["f"]))
        return (j + 1, _rand_value(t["f"][j], rng))
    return _rand_value(t["inner"], rng)

def _unjson(j):
    if isinstance(j, dict):
        return tlaval.Rec({k: _unjson(v) for k, v in j.items()})
    if isinstance(j, list):
        return tuple(_unjson(x) for x in j)
    return j

@core.safe
def utf8_worker(seed):
    """utf8 / byte arrays (outside the enumerated universe): total with str / bytes results or ValueError."""
    import pydsdl
    from .. import dsdlio
    rng = random.Random(seed)
    viol = []
    n = 0
    with dsdlio.Tree({"ns/X.1.0.dsdl": "utf8[<=4] s\nbyte[<=3] b\nuint3 t\n@sealed\n"}, "utf8") as tr:
        status, res, _ = dsdlio.read_ns(tr.path("ns"))
        X = res[0]
        for _ in range(3000):
            b = bytes(rng.randrange(256) for _ in range(rng.randrange(0, 10)))
            if rng.random() < 0.5 and b:
                b = bytes([b[0] % 5]) + b[1:]
            n += 1
            try:
                o = pydsdl.deserialize(X, b)
                if not (isinstance(o["s"], str) and isinstance(o["b"], bytes) and len(o["s"].encode()) <= 4 and len(o["b"]) <= 3):
                    viol.append(("invalid object", b.hex(), repr(o)))
                b2 = pydsdl.serialize(X, o)
                if pydsdl.deserialize(X, b2) != o:
                    viol.append(("not a fixed point", b.hex()))
            except Exception as ex:
                if wr.classify_exc(ex).startswith("RAW:"):
                    viol.append(("exception", b.hex(), type(ex).__name__))
    return {"n": n, "viol": viol[:5]}

def repo_suite_trace():
    """Run the repository's own serdes tests with the hooks on and return their reader / writer steps as records."""
    import json, os, subprocess, sys, tempfile
    from .. import wiretrace
    fd, path = tempfile.mkstemp(prefix="verif-trace-", suffix=".ndjson")
    os.close(fd)
    try:
        env = dict(os.environ, OPENCYPHAL_PYDSDL_VERIF="1", OPENCYPHAL_PYDSDL_VERIF_TRACE=path, PYTHONDONTWRITEBYTECODE="1",
                   PYTHONPATH=str(core.REPO))
        p = subprocess.run([sys.executable, "-m", "pytest", "-q", "-p", "no:cacheprovider", "-x", "pydsdl/_test_serdes.py"],
                           cwd=str(core.REPO), env=env, capture_output=True, text=True, timeout=900)
        if p.returncode != 0:
            raise tlc.MachineryError("the repository's serdes tests failed under tracing: %s" % p.stdout[-500:])
        evs = [json.loads(l) for l in open(path)]
    finally:
        os.unlink(path)
    return wiretrace.to_records([e for e in evs if e["ev"].startswith(("rd", "wr"))])

def run(ctx):
    ctx.rule = ("TLC checks DecTotal / FixedPoint / TruncationIgnored / ZeroExtension on every bit string of 0..8 bits "
                "(Growth-2 types) [thorough: also 0..16 bits for Growth-1 types] of the specification's decoder. Binding: for every type of the "
                "universe (and both header modes of delimited types) the real deserialize() is called on all strings of <= 1 "
                "byte, sampled and structured 2-byte strings, every prefix and single-bit corruption of four valid "
                "representations, representations followed by junk / zeros and random strings up to 16 bytes; every call "
                "is recorded and judged by TLC against the specification. Non-trivial = a call whose result is a value "
                "with at least one non-default component or an error; distinct by (type, bytes)")
    ctx.assumptions = ["TLC's evaluation of the specification", "integer fields of the universe are at most 23 bits wide",
                       "utf8 / byte arrays are sampled by the harness only (total, fixed point)",
                       "the byte string is handed over as bytes / bytearray / memoryview (incl. a slice of a larger buffer, and views / arrays of 16- and 32-bit items) in turn"]
    # (two nesting steps x 16 bits would be ~2 * 10^8 states: thorough checks 8 bits at two steps and 16 bits at one step)
    for cfg_b in (["Wire_bytes2_quick.cfg"] if ctx.tier == "quick" else ["Wire_bytes2_quick.cfg", "Wire_bytes_quick.cfg"]):
        res = tlc.run("Wire", cfg_b, tag="c07spec", timeout=6000)
        ctx.add_tlc(res, cfg_b)
        if res.violated:
            ctx.spec_violation(res, cfg_b)
        tlc.cleanup(res)
    # the types of the universe
    cfg_t = "Wire_types_quick.cfg"
    res = tlc.run("Wire", cfg_t, dump=True, tag="c07types", timeout=3000)
    ctx.add_tlc(res, cfg_t)
    types = []
    for st in tlaval.iter_dump(res.dump_path):
        if st["ph"] == 100:
            types.append((tlaval.to_json(st["case"]["ty"]), st["case"]["hdr"]))
    tlc.cleanup(res)
    rng = random.Random(ctx.seed)
    limit = 500 if ctx.tier == "quick" else 1200      # (all records of a run are judged by TLC in one go: ~3 * 10^6 at most)
    if len(types) > limit:
        wide = [t for t in types if '"n": 9' in repr(t).replace("'", '"') or any('"n": %d' % n in repr(t).replace("'", '"') for n in (11, 12, 14, 15, 17, 23))]
        rest = [t for t in types if t not in wide]
        rng.shuffle(rest)
        types = wide + rest[:max(0, limit - len(wide))]
        ctx.exhaustive = False
    args = [(tj, hdr, ctx.seed * 100003 + n, ctx.tier, n * 100000) for n, (tj, hdr) in enumerate(types)]
    results = core.pmap(type_worker, args, chunksize=4)
    recs, wire = [], []
    for r in results:
        if "harness_exception" in r:
            lf = core.library_failure(r)
            if lf is not None:
                ctx.violation(lf)
                continue
            raise tlc.MachineryError("worker failed: %s\n%s" % (r["harness_exception"], r["tb"]))
        for v in r["viol"]:
            ctx.violation(v)
        recs.extend(r["recs"])
        wire.extend(r.get("wire", []))
    by_id = {r["id"]: r for r in recs}
    bad = records.check(ctx, "WireRecords", recs, "c07rec", slices=16)
    for i in sorted(bad)[:200]:
        r = by_id[i]
        ctx.violation({"kind": "bytes", "case": {"ty": r["ty"], "hdr": r["hdr"], "b": bytes(r["b"]).hex()},
                       "diff": [("deserialize disagrees with the specification's decoder", r["obs"])]})
    ctx.count(len(recs))
    ctx.traces += len(recs)
    for r in recs:
        if (not r["obs"]["ok"]) or any(r["b"]):
            ctx.nontriv(core.jhash([r["ty"], r["hdr"], r["b"]]))
    if recs:
        ctx.sample({k: recs[len(recs) // 2][k] for k in ("ty", "hdr", "b", "obs")})
    # Binding B: recorded reader / writer steps of the harness's own calls and of the repository's serdes tests
    suite, mal = repo_suite_trace()
    for m in mal:
        if not m[0].startswith("writer"):
            ctx.violation({"kind": "wire-trace", "case": "repository serdes tests", "diff": [(m[0], str(m[1])[:200])]})
    ctx.extra["wire_trace_records"] = {"harness_calls": len(wire), "repository_tests": len(suite),
                                       "writers_not_judged": sum(1 for m in mal if m[0].startswith("writer"))}
    allw = wire + suite
    for n, r in enumerate(allw):
        r["id"] = n + 1
    badw = records.check(ctx, "TraceWire", allw, "c07wire", slices=8)
    for i in sorted(badw)[:50]:
        r = allw[i - 1]
        ctx.violation({"kind": "wire-trace", "case": {k: r[k] for k in r if k not in ("data", "writes")}, "data": r.get("data"),
                       "diff": [("recorded %s step contradicts the specification's reader / writer" % r["kind"], r.get("path"))]})
    ctx.traces += len(allw)
    ctx.count(len(allw))
    u = core.pmap(utf8_worker, [ctx.seed + k for k in range(8)], procs=8, chunksize=1)
    for r in u:
        if "harness_exception" in r:
            lf = core.library_failure(r)
            if lf is not None:
                ctx.violation(lf)
                continue
            raise tlc.MachineryError("worker failed: %s" % r)
        ctx.count(r["n"])
        for v in r["viol"]:
            ctx.violation({"kind": "utf8", "case": "utf8[<=4] s; byte[<=3] b; uint3 t", "diff": [v]})

def replay(ctx, rec):
    import pydsdl
    c = rec["case"]
    if rec.get("kind") != "bytes" or "b" not in c:
        print("replay: re-run the check with seed %s" % rec.get("seed"))
        return 0
    t = _unjson(c["ty"])
    X = wr.real_type(t).obj
    try:
        o = pydsdl.deserialize(X, bytes.fromhex(c["b"]), with_delimiter_header=c["hdr"])
        print("deserialize ->", o)
    except Exception as ex:
        print("deserialize raised", type(ex).__name__, ex)
    print("expected per the recorded diff:", rec["diff"])
    return 0
