"""C17 - errors and @print output are attributed to the right file and line.

Line half: Statements.tla (ErrLineIsStatementLine, PrintsBeforeError, NeutralInsert's line shift) over every fault
category at every position; every state replayed (LF and CRLF renderings) and (class, path, line) + print events compared.
Path half: Reader.tla (ErrPathIsFaultFile, PrintOnce, PrintOwnPath) - see reader_replay.
"""
from __future__ import annotations
from .. import stmt_replay

def _focus(b):
    """C17 judges location and print attribution; acceptance differences belong to C03/C05."""
    keep = [d for d in b["diff"] if d[0] in ("error line", "error path", "prints before the error", "prints",
                                              "error class is not InvalidDefinitionError")]
    if not keep:
        return None
    b = dict(b)
    b["diff"] = keep
    return b

def run(ctx):
    ctx.rule = ("TLC enumerates line sequences with a faulty statement of every category (syntax, undefined identifier, "
                "failed assertion, deferred attribute errors: bad constant, union field after _offset_, misplaced "
                "directives, finalization errors without a line) or @print at every position with arbitrary surrounding "
                "empty/blank/comment lines; each state is rendered with LF and CRLF line ends and read; error class, "
                "path, line and the (path, line, text) of every print event are compared with the specification. "
                "Dependency configurations (fault or @print in a dependency at depth 1-3, dependency also a target) come "
                "from Reader.tla. Non-trivial = rejected with a line or accepted with at least one print")
    ctx.assumptions = ["TLC's evaluation of the specification"]
    if ctx.tier == "quick":
        plan = [("Stmt_errors_quick.cfg", 2, False, 1)]
    else:
        plan = [("Stmt_errors_thorough.cfg", 2, False, 1), ("Stmt_all_thorough.cfg", 2, False, 1)]
    for cfg, nv, rt, sm in plan:
        stmt_replay.run_config(ctx, cfg, nv, rt, sm, focus=_focus)
    try:
        from .. import reader_replay
    except ImportError:
        reader_replay = None
    if reader_replay is not None:
        reader_replay.run_c17(ctx)
    ctx.sample({"lines": [{"k": "badconst", "c": False}, {"k": "empty", "c": False}, {"k": "empty", "c": True},
                          {"k": "sealed", "c": False}], "expected": {"ok": False, "line": 1}})

def replay(ctx, rec):
    from . import c03
    return c03.replay(ctx, rec)
