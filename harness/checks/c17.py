"""C17 - errors and @print output are attributed to the right file and line.

Line half: Statements.tla (ErrLineIsStatementLine, PrintsBeforeError, NeutralInsert's line shift) over every fault
category at every position; every state replayed (LF and CRLF renderings) and (class, path, line) + print events compared.
Path half: Reader.tla (ErrPathIsFaultFile, PrintOnce, PrintOwnPath) - see reader_replay.
"""
from __future__ import annotations
from .. import stmt_replay

def _focus(b):
    """C17 judges location and print attribution; acceptance differences belong to C03/C05."""
    keep = [d for d in b["diff"] if d[0] in ("error line", "error path", "prints before the error", "prints",
                                              "error class is not InvalidDefinitionError")]
    if not keep:
        return None
    b = dict(b)
    b["diff"] = keep
    return b

EXOTIC = ["\x0c", "\x0b", "\x1c", "\x1d", "\x1e", "\x85", "\u2028", "\u2029", "\t", "\xa0", "\ufeff"]

def exotic_part(ctx):
    """Characters that some line-splitting routines treat as line breaks, inside comments and string literals: the line
    numbers of what follows must not move (only LF and CRLF end a line)."""
    from .. import dsdlio
    import pydsdl
    n = 0
    for ch in EXOTIC:
        for text, line in (("# head %s tail\nuint8 x # doc %s\n@print 3\n@assert false\n@sealed\n" % (ch, ch), 4),
                           ("uint8 x\n@assert 'a%sb' != 'q'\n# c %s\n\nuint8 X = 300\n@sealed\n" % (ch, ch), 5)):
            with dsdlio.Tree({"ns/A.1.0.dsdl": text}, "c17x") as tr:
                status, res, prints = dsdlio.read_ns(tr.path("ns"))
            n += 1
            if status == "ok" or not isinstance(res, pydsdl.InvalidDefinitionError) or res.line != line or any(l != 3 for (_p, l, _t) in prints):
                ctx.violation({"kind": "exotic-whitespace", "case": {"char": repr(ch), "text": text},
                               "diff": [("error / print line", None if status == "ok" else getattr(res, "line", None), line, [l for (_p, l, _t) in prints])]})
    ctx.count(n)
    ctx.traces += n

def run(ctx):
    ctx.rule = ("TLC enumerates line sequences with a faulty statement of every category (syntax, undefined identifier, "
                "failed assertion, deferred attribute errors: bad constant, union field after _offset_, misplaced "
                "directives, finalization errors without a line) or @print at every position with arbitrary surrounding "
                "empty/blank/comment lines; each state is rendered with LF and CRLF line ends and read; error class, "
                "path, line and the (path, line, text) of every print event are compared with the specification. "
                "Dependency configurations (fault or @print in a dependency at depth 1-3, dependency also a target) come "
                "from Reader.tla. Non-trivial = rejected with a line or accepted with at least one print")
    ctx.assumptions = ["TLC's evaluation of the specification"]
    if ctx.tier == "quick":
        plan = [("Stmt_errors_quick.cfg", 2, False, 2)]      # sequences of four lines sampled 1/2
    else:
        plan = [("Stmt_errors_thorough.cfg", 2, False, 1), ("Stmt_all_thorough.cfg", 2, False, 1)]
    for cfg, nv, rt, sm in plan:
        stmt_replay.run_config(ctx, cfg, nv, rt, sm, focus=_focus)
    exotic_part(ctx)
    try:
        from .. import reader_replay
    except ImportError:
        reader_replay = None
    if reader_replay is not None:
        reader_replay.run_c17(ctx)
    ctx.sample({"lines": [{"k": "badconst", "c": False}, {"k": "empty", "c": False}, {"k": "empty", "c": True},
                          {"k": "sealed", "c": False}], "expected": {"ok": False, "line": 1}})

def replay(ctx, rec):
    from . import c03
    return c03.replay(ctx, rec)
