"""C08 - field offsets and in-language layout intrinsics equal the real bit positions.

TLC: Layout.tla (Mode = "offsets"): Offsets / ElemOffsets / OffsetAfter as the iterators compute them, with the design
checks OffsetsConsistent (every start aligned for its field, offsets chain into the type's set, `_offset_` padded to the
next field's alignment is that field's offset); Wire.tla checks that offsets are the positions the encoder really uses.
Binding A: every state materialised; iterate_fields_with_offsets / enumerate_elements_with_offsets queried on the SAME
object for ten base offset sets (aligned, unaligned, multi-valued, sets that collide under BitLengthSet equality, two
40-element literal sets that agree in their 16 smallest and 16 largest elements);
`@print _offset_` at every position, `T._bit_length_`, `T._extent_` printed from a referring definition.
"""
from __future__ import annotations
import re
from .. import core, tlc, tlaval, dsdlio, dsdlgen
from . import c02

_BIG_A = {8 * j for j in range(40)}
BASES = [{0}, {8}, {1}, {0, 4, 8}, {3, 16}, {7, 9}, {0, 64}, {0, 32, 64}, _BIG_A, (_BIG_A - {160, 168}) | {161, 170}]

def _ints(text):
    return frozenset(int(x) for x in re.findall(r"-?\d+", text))

@core.safe
def worker(arg):
    import pydsdl
    block, seed = arg
    st = tlaval.parse_state_block(block)
    if st["ph"] == 0:
        return None
    t, out = st["case"], st["out"]
    comp = t["k"] in ("st", "un", "del")
    if not comp and t["k"] != "fix":
        return None
    g = dsdlgen.Gen(seed + hash(block) % 1000)
    if comp:
        g.composite(t, name="X", offset_prints=True)
        g.files["ns/W.1.0.dsdl"] = "ns.X.1.0 x\n@print ns.X.1.0._bit_length_\n@print ns.X.1.0._extent_\n@sealed\n"
    else:
        dsdlgen.wrap_field(g, t)
    diff = []
    with dsdlio.Tree(g.files, "c08") as tr:
        status, res, prints = dsdlio.read_ns(tr.path("ns"))
        if status != "ok":
            diff.append(("rejected", dsdlio.err_info(res)))
        else:
            try:
                W = [x for x in res if x.full_name == "ns.W"][0]
                dt = W.fields[0].data_type
                if comp:
                    inner = t["inner"] if t["k"] == "del" else t
                    names = [("f%d" % (j + 1)) if ft["k"] != "void" else "" for j, ft in enumerate(inner["f"])]
                    order = list(range(len(BASES)))
                    if hash(block) % 2:
                        order.reverse()
                    for b in order:
                        got = list(dt.iterate_fields_with_offsets(pydsdl.BitLengthSet(BASES[b])))
                        if [f.name for f, _ in got] != names:
                            diff.append(("fields yielded", [f.name for f, _ in got], names))
                            continue
                        for j, (f, o) in enumerate(got):
                            if frozenset(o) != out["offs"][b][j]:
                                diff.append(("offset of field %d for base %s" % (j + 1, sorted(BASES[b])), sorted(o),
                                             sorted(out["offs"][b][j])))
                    # intrinsics
                    # X's directives are evaluated before W's own (X is read first, as a target or as W's dependency);
                    # the path of print events is C17's concern (known finding F4b), so only the order is used here
                    xp = [(l, _ints(tx)) for (p, l, tx) in prints[:-2]]
                    a = out["after"]     # a function over 0..n is printed as (0 :> .. @@ ..), over 1..n as a tuple
                    exp_after = [a[k] for k in sorted(a)] if isinstance(a, dict) else list(a)
                    if [s for _, s in xp] != exp_after:
                        diff.append(("_offset_ prints", [sorted(s) for _, s in xp], [sorted(s) for s in exp_after]))
                    wp = [_ints(tx) for (p, l, tx) in prints[-2:]]
                    if len(wp) != 2 or wp[0] != out["bls"] or wp[1] != frozenset({out["extent"]}):
                        diff.append(("T._bit_length_ / T._extent_", [sorted(s) for s in wp], [sorted(out["bls"]), out["extent"]]))
                    if frozenset(dt.bit_length_set) != out["bls"] or dt.extent != out["extent"]:
                        diff.append(("API bit_length_set / extent", sorted(dt.bit_length_set), dt.extent))
                else:
                    for b in range(len(BASES)):
                        got = list(dt.enumerate_elements_with_offsets(pydsdl.BitLengthSet(BASES[b])))
                        if [i for i, _ in got] != list(range(t["c"])):
                            diff.append(("elements yielded", [i for i, _ in got], t["c"]))
                            continue
                        for j, (i, o) in enumerate(got):
                            if frozenset(o) != out["elems"][b][j]:
                                diff.append(("offset of element %d for base %s" % (j, sorted(BASES[b])), sorted(o),
                                             sorted(out["elems"][b][j])))
            except Exception as ex:
                diff.append(("exception", type(ex).__name__, str(ex)[:200]))
    if comp and not diff and hash(block) % 2 == 0:
        diff.extend(service_sections(t, out, seed + hash(block) % 1000))
    r = {"nt": True, "key": core.jhash(tlaval.to_json(t))}
    if diff:
        r["bad"] = {"kind": "offsets", "case": tlaval.to_json(t), "files": g.files, "diff": diff[:6]}
    return r

def service_sections(t, out, seed):
    """The same schema as the request or the response part of a service, next to a partner part with the same number of
    fields but another layout: `_offset_` in one part is the layout of THAT part only (the specification's OffsetAfter does
    not know about the other part)."""
    inner = t["inner"] if t["k"] == "del" else t
    n = len(inner["f"])
    partner = {"k": "st", "f": tuple({"k": "u", "n": 16, "m": "s"} for _ in range(n))}
    a = out["after"]
    exp_t = [a[k] for k in sorted(a)] if isinstance(a, dict) else list(a)
    exp_p = [frozenset({16 * j}) for j in range(n + 1)]
    diff = []
    for t_first in (True, False):
        g = dsdlgen.Gen(seed)
        first, second = (t, partner) if t_first else (partner, t)
        lines = g.body_lines(first, offset_prints=True, field_prefix="q") + ["---"] + g.body_lines(second, offset_prints=True, field_prefix="r")
        g.files["ns/S.1.0.dsdl"] = "\n".join(lines) + "\n"
        with dsdlio.Tree(g.files, "c08s") as tr:
            status, res, prints = dsdlio.read_ns(tr.path("ns"))
        if status != "ok":
            diff.append(("service with this schema as its %s part rejected" % ("request" if t_first else "response"), dsdlio.err_info(res)))
            continue
        sp = [_ints(tx) for (p, l, tx) in prints if str(p).endswith("S.1.0.dsdl")]
        want = (exp_t + exp_p) if t_first else (exp_p + exp_t)
        if sp != want:
            diff.append(("_offset_ prints of a service whose %s part is this schema" % ("request" if t_first else "response"),
                         [sorted(x) for x in sp], [sorted(x) for x in want]))
    return diff

@core.safe
def many_attr_worker(arg):
    """Unions / structures with many constants: offsets depend on the fields only."""
    import pydsdl
    from pathlib import Path
    nv, nc, union = arg
    u8 = pydsdl.UnsignedIntegerType(8, pydsdl.PrimitiveType.CastMode.SATURATED)
    attrs = [pydsdl.Field(u8, "f%d" % i) for i in range(nv)]
    attrs += [pydsdl.Constant(u8, "C%d" % i, pydsdl._expression.Rational(1)) for i in range(nc)]
    cls = pydsdl.UnionType if union else pydsdl.StructureType
    form = attrs if (nv + nc) % 3 == 0 else tuple(attrs) if (nv + nc) % 3 == 1 else iter(attrs)     # the parameter is an Iterable
    ty = cls(name="ns.U", version=pydsdl.Version(1, 0), attributes=form, deprecated=False, fixed_port_id=None,
             source_file_path=Path("/nonexistent/ns/U.1.0.dsdl"), has_parent_service=False)
    diff = []
    tag = 8 if nv <= 256 else 16
    for base in ({0}, {3}, {8, 16}):
        padded = {-(-x // 8) * 8 for x in base}
        got = [(f.name, frozenset(o)) for f, o in ty.iterate_fields_with_offsets(pydsdl.BitLengthSet(base))]
        exp = [("f%d" % i, frozenset((x + tag) if union else (x + 8 * i) for x in padded)) for i in range(nv)]
        if got != exp:
            bad = [(a, sorted(b), sorted(d)) for (a, b), (c, d) in zip(got, exp) if (a, b) != (c, d)][:2]
            diff.append(("offsets with %d constants" % nc, sorted(base), bad))
    r = {"nt": True, "key": "many%d-%d-%s" % (nv, nc, union)}
    if diff:
        r["bad"] = {"kind": "offsets-many-attributes", "case": {"variants": nv, "constants": nc, "union": union}, "diff": diff}
    return r

def run(ctx):
    ctx.rule = ("TLC enumerates composite and fixed-array types (flat: every primitive width; deep: nested to Growth levels) "
                "with the offsets of every field / element for ten base offset sets, `_offset_` after every attribute "
                "prefix, `_bit_length_` and `_extent_`; each is materialised and the iterators (queried repeatedly on the "
                "same object, in both orders of the bases) and the printed intrinsics are compared with the specification; half of the "
                "composites are also placed as the request and as the response part of a service next to a partner part with the "
                "same number of fields (`_offset_` of one part does not depend on the other part). "
                "Distinct by hash of the type record; every case is non-trivial (at least one field or element)")
    ctx.assumptions = ["TLC's evaluation of the specification", "closed-form expectations for flat 2..300-variant unions "
                       "with up to 300 constants (offsets depend on fields only)"]
    deep = "Offsets_deep_quick.cfg" if ctx.tier == "quick" else "Offsets_deep_thorough.cfg"
    c02.run_cfg(ctx, "Layout", "Offsets_flat.cfg", worker, "oflat")
    # (three nesting steps give 1.5 * 10^6 types; every fifth is materialised in the thorough tier)
    c02.run_cfg(ctx, "Layout", deep, worker, "odeep",
                mk=lambda blocks: [(b, ctx.seed) for b in blocks if ctx.tier == "quick" or core.sampled(b, 5)])
    if ctx.tier != "quick":
        ctx.exhaustive = False
    many = [(nv, nc, un) for nv in (2, 3, 200, 256) for nc in (0, 1, 100, 300) for un in (True, False)]
    c02.consume(ctx, core.pmap(many_attr_worker, many, chunksize=2), "many")
    ctx.sample({"type": "@union uint8[<=2] f1; ns.Comp f2", "bases": [sorted(b) for b in BASES]})

def replay(ctx, rec):
    print("replay: re-run ./check %s --tier %s --seed %s (cases are enumerated exhaustively)" % (ctx.pid, rec.get("tier"), rec.get("seed")))
    return 0
