"""C09 - versioned references resolve to exactly the named definition or fail cleanly.

TLC: Reader.tla - ResolvesExactly, BadReferenceFails, AcyclicWhenOk (and the reader invariants) for every configuration
of up to MaxDefs definitions over three directories with absolute / relative / self / cyclic / case-variant / missing /
wrong-version / ambiguous references.
Binding A: every configuration is materialised, read with read_namespace, and direct list, reference links of every
reachable composite (identity of the file each nested type came from), or error class / path / line are compared.
"""
from __future__ import annotations
from .. import reader_replay as rr, session_replay
from . import c02

def _focus(b):
    return b["kind"] != "print-path"

def run(ctx):
    ctx.rule = ("TLC enumerates configurations: identity sets (<= MaxDefs of: directories target-a / lookup-b / lookup-a' x "
                "names X, Y x versions) with every definition's references drawn from absolute, relative, self, "
                "case-variant, missing, wrong-version references and ordered pairs of absolute references (chains, "
                "diamonds, cycles, several versions, duplicates across directories and - a second file with the legacy suffix or a port-ID "
                "prefix - inside one directory); each is materialised and read; the "
                "identity (file) of every nested type reached through any referrer is compared with the specification's "
                "resolution, errors by class, path and line. Sessions.tla: every history of two (thorough: three, sampled) calls over three "
                "entry points x six variants of one namespace (same type names and versions, other layout / constant / deprecation "
                "/ a fault) x files rewritten in place or kept in a directory per variant, each history in a process of its own: "
                "every call observes exactly what it observes alone. Non-trivial = at least two definitions and one reference")
    ctx.assumptions = ["TLC's evaluation of the specification", "target order is the sorted order read_namespace uses; "
                       "read_files orders are covered by C10", "for a letter-case mismatch the error's path is not compared"]
    ctx.note("a reference that differs from an existing definition only by letter case is reported with the path of the "
             "EXISTING definition's file, not of the referring file; the statement does not settle which file contains the "
             "fault, so only the class is compared for this category")
    if ctx.tier == "quick":
        rr.run_cfg(ctx, "Reader_ns2.cfg", "namespace", focus=_focus)                     # every reference kind, 2 definitions
        rr.run_cfg(ctx, "Reader_ns3_lean.cfg", "namespace", sample_mod=8, focus=_focus)  # graph shapes over 3 definitions
        rr.run_cfg(ctx, "Reader_ns3_twin.cfg", "namespace", sample_mod=24, focus=_focus)  # two files of one name + version in ONE directory
        ctx.exhaustive = False
    else:
        rr.run_cfg(ctx, "Reader_ns2_rich.cfg", "namespace", focus=_focus)
        rr.run_cfg(ctx, "Reader_ns3_lean.cfg", "namespace", focus=_focus)
        rr.run_cfg(ctx, "Reader_ns3.cfg", "namespace", sample_mod=12, focus=_focus)
        rr.run_cfg(ctx, "Reader_ns3_twin.cfg", "namespace", sample_mod=3, focus=_focus)
        ctx.exhaustive = False
    # histories of calls in one process (Sessions.tla): every call observes what the same call observes alone
    c02.run_cfg(ctx, "Sessions", "Sessions_quick.cfg" if ctx.tier == "quick" else "Sessions_thorough.cfg", session_replay.worker, "sess",
                mk=lambda blocks: [(b, 24) for b in blocks])      # histories of three calls: one in 24
    ctx.sample({"defs": ["d1/a/X.0.1: a.Y.0.1 f1", "d1/a/Y.0.1: b.X.0.1 f1; a.X.0.1 f2 (cycle)", "d2/b/X.0.1"],
                "expected": "UndefinedDataTypeError at d1/a/Y.0.1:2"})

def replay(ctx, rec):
    print("replay: re-run ./check %s --tier %s --seed %s (cases are enumerated by TLC)" % (ctx.pid, rec.get("tier"), rec.get("seed")))
    return 0
