"""C12 - constants are always compliant with their declared type.

TLC: Constants.tla - Compliant(type, value) over every integer width 1..64 (both signednesses and cast modes), the three
float formats and bool, with symbolic boundary values s*2^e + o (+1/3) around both ends of every range, the largest
finite float values +- 1/3, strings as sequences of character classes (printable / control ASCII, Latin-1, BMP, combining, astral, lone surrogate) of length 0..2 (and 3 over three classes), booleans and sets; SymbolicMatchesExact validates the
exponent arithmetic against plain integers up to 24 bits, Monotone across widths.
Binding A: each (type, value) is rendered as a constant definition with an exact DSDL expression for the value; accepted
iff Compliant, the stored Constant.value must be exactly the rational (or the character's code), never rounded.
"""
from __future__ import annotations
import random
from fractions import Fraction
from .. import core, tlc, tlaval, dsdlio
from . import c02

FMAX = {16: (2 - Fraction(1, 2 ** 10)) * 2 ** 15, 32: (2 - Fraction(1, 2 ** 23)) * 2 ** 127, 64: (2 - Fraction(1, 2 ** 52)) * 2 ** 1023}
FEXPR = {16: "(2 - 2 ** -10) * 2 ** 15", 32: "(2 - 2 ** -23) * 2 ** 127", 64: "(2 - 2 ** -52) * 2 ** 1023"}

# concrete characters per class of Constants.tla (CharClasses)
CHARS = {"a": list("AZaz09 ~!#'\"\\"), "c": ["\t", "\x00", "\x7f", "\r", "\n", "\x1b"], "l": ["\u00e9", "\u0080", "\u00ff", "\u00a0"],
         "w": ["\u0451", "\u4e2d", "\u0100", "\uffff"], "m": ["\u0301", "\u0308", "\u200d"], "x": ["\U0001f600", "\U00010000", "\U0010ffff"],
         "s": ["\ud800", "\udfff"], "k": ["\u212a", "\u037e", "\u1fef", "\uff21", "\u2002"]}

def type_text(t, rng):
    if t["k"] == "bool":
        return "bool"
    base = {"u": "uint", "i": "int", "f": "float"}[t["k"]] + str(t["n"])
    if t["k"] == "i":
        return rng.choice(["", "saturated "]) + base
    return ("truncated " if t["m"] == "t" else rng.choice(["", "saturated "])) + base

def value_text(v, rng):
    """(DSDL expression, exact value or None)"""
    k = v["k"]
    if k == "bool":
        return ("true" if v["b"] else "false"), bool(v["b"])
    if k == "set":
        return "{1, 2}", None
    if k == "str":
        chars = [rng.choice(CHARS[c]) for c in v["cs"]]
        q = rng.choice("'\"")
        body = ""
        for ch in chars:
            o = ord(ch)
            literal_ok = 0x20 <= o < 0xD800 and ch not in (q, "\\") or 0xE000 <= o
            named = {"\t": "\\t", "\r": "\\r", "\n": "\\n", "'": "\\'", '"': '\\"', "\\": "\\\\"}
            forms = ([ch] if literal_ok else []) + ([named[ch]] if ch in named else [])
            forms.append("\\u%04x" % o if o < 0x10000 else "\\U%08x" % o)
            if o < 0x10000 and rng.random() < 0.3:
                forms.append("\\U%08X" % o)
            body += rng.choice(forms)
        return q + body + q, (ord(chars[0]) if len(chars) == 1 and ord(chars[0]) < 128 else None)
    if k == "fmax":
        x = FMAX[v["fmt"]] + Fraction(v["d"], 3)
        e = FEXPR[v["fmt"]] + ("" if v["d"] == 0 else (" + 1/3" if v["d"] > 0 else " - 1/3"))
        if v["s"] < 0:
            return "-(%s)" % e, -x
        return e, x
    x = v["s"] * 2 ** v["e"] + v["o"] + (Fraction(1, 3) if v["third"] else 0)
    if rng.random() < 0.5 and not v["third"] and abs(x) < 10 ** 12:
        return str(int(x)) if x >= 0 else "-%d" % -int(x), Fraction(x)
    e = "2 ** %d" % v["e"] if v["s"] > 0 else "-(2 ** %d)" % v["e"]
    if v["o"]:
        e += " + 1" if v["o"] > 0 else " - 1"
    if v["third"]:
        e += " + 1/3"
    return e, Fraction(x)

@core.safe
def worker(arg):
    import pydsdl
    block, seed = arg
    st = tlaval.parse_state_block(block)
    if st["ph"] != 2:
        return None
    t, v, ok = st["case"]["ty"], st["case"]["val"], st["out"]
    rng = random.Random(seed * 7919 + (hash(block) & 0xFFFFF))
    tt, (vt, exact) = type_text(t, rng), value_text(v, rng)
    text = "%s X = %s\n@sealed\n" % (tt, vt)
    diff = []
    with dsdlio.Tree({"ns/A.1.0.dsdl": text}, "c12") as tr:
        status, res, _ = dsdlio.read_ns(tr.path("ns"))
    if status == "err":
        if not isinstance(res, pydsdl.InvalidDefinitionError):
            diff.append(("exception other than InvalidDefinitionError", type(res).__name__, str(res)[:200]))
        elif ok:
            diff.append(("compliant initialiser rejected", text, str(res)[-150:]))
    else:
        if not ok:
            diff.append(("non-compliant initialiser accepted", text, str(res[0].constants[0].value)))
        else:
            c = res[0].constants[0]
            got = c.value.native_value
            if isinstance(exact, bool):
                if got is not exact:
                    diff.append(("stored value", repr(got), exact))
            elif Fraction(got) != Fraction(exact) or isinstance(got, bool):
                diff.append(("stored value (rounded or converted)", str(got), str(exact)))
            if str(c.data_type) != (tt if tt.startswith(("truncated", "saturated", "bool")) else "saturated " + tt):
                diff.append(("constant type", str(c.data_type), tt))
    r = {"nt": True, "key": core.jhash([tlaval.to_json(t), tlaval.to_json(v)])}
    if diff:
        r["bad"] = {"kind": "constant", "case": {"ty": tlaval.to_json(t), "val": tlaval.to_json(v)}, "text": text, "diff": diff,
                    "expected_compliant": ok}
    return r

@core.safe
def illegal_types_worker(seed):
    """Only boolean, integer and float types can carry constants."""
    import pydsdl
    diff = []
    for ty in ("void8", "uint8[2]", "uint8[<=2]", "ns.B.1.0", "utf8", "byte", "utf8[<=4]", "byte[4]"):
        fs = {"ns/A.1.0.dsdl": "%s X = 1\n@sealed\n" % ty, "ns/B.1.0.dsdl": "@sealed\n"}
        with dsdlio.Tree(fs, "c12t") as tr:
            status, res, _ = dsdlio.read_ns(tr.path("ns"))
        if status == "ok":
            diff.append(("constant of type %s accepted" % ty,))
        elif not isinstance(res, pydsdl.InvalidDefinitionError):
            diff.append(("constant of type %s: exception other than InvalidDefinitionError" % ty, type(res).__name__))
    r = {"nt": True, "key": "illegal-types"}
    if diff:
        r["bad"] = {"kind": "constant-type", "case": "non-primitive constant types", "diff": diff}
    return r

@core.safe
def literal_forms_worker(seed):
    """The stored value is the exact rational the literal denotes, whatever form the literal has."""
    import pydsdl
    from fractions import Fraction as Fr
    cases = [("float64", "1e-3", Fr(1, 1000)), ("float64", "0.001", Fr(1, 1000)), ("float32", "25e-1", Fr(5, 2)), ("float16", "1.5E-2", Fr(3, 200)),
             ("uint8", "300000e-5", Fr(3)), ("int16", "-12_000e-3", Fr(-12)), ("float64", "1e-400", Fr(1, 10 ** 400)), ("float64", ".1", Fr(1, 10)),
             ("float64", "7E+2", Fr(700)), ("uint16", "0x_ff_ff", Fr(65535)), ("uint8", "0b1111_1111", Fr(255)), ("int8", "-0o200", Fr(-128)),
             ("float32", "1 / 3", Fr(1, 3)), ("float64", "0.1 + 0.2", Fr(3, 10)), ("uint64", "18_446_744_073_709_551_615", Fr(2 ** 64 - 1)),
             # compliant values whose exact rational form is thousands of digits long (rendering them is nobody's business)
             ("float32", "1 / 10 ** 5000", Fr(1, 10 ** 5000)), ("float64", "1 - 1 / 10 ** 5000", 1 - Fr(1, 10 ** 5000)),
             ("float16", "65504 - 1 / 10 ** 5000", 65504 - Fr(1, 10 ** 5000)), ("float64", "-(1 / 3 ** 9000)", -Fr(1, 3 ** 9000)),
             # results of fractional powers: the exact value of the binary64 number the power yields, not a rounded decimal
             ("float64", "0.1 ** 0.5", Fr(0.1 ** 0.5)), ("float64", "2 ** 0.5", Fr(2 ** 0.5)), ("float32", "10 ** -0.5", Fr(10 ** -0.5)),
             ("float64", "(2 ** 200) ** 0.5", Fr(2 ** 100)), ("float32", "3 ** 0.5 * 0 + 340282346638528859811704183484516925440", Fr(340282346638528859811704183484516925440))]
    diff = []
    for ty, lit, want in cases:
        with dsdlio.Tree({"ns/A.1.0.dsdl": "%s X = %s\n@sealed\n" % (ty, lit)}, "c12l") as tr:
            status, res, _ = dsdlio.read_ns(tr.path("ns"))
        if status != "ok":
            diff.append(("compliant initialiser rejected", ty, lit, str(res)[-120:]))
        else:
            got = res[0].constants[0].value.native_value
            if Fr(got) != want:
                diff.append(("stored value (rounded or converted)", ty, lit, str(got), str(want)))
    r = {"nt": True, "key": "literal-forms"}
    if diff:
        r["bad"] = {"kind": "constant-literal", "case": "literal forms", "diff": diff[:6]}
    return r

def run(ctx):
    ctx.rule = ("TLC enumerates every constant type (bool, (u)int1..64 in both cast modes, float16/32/64 in both) with ~100 "
                "symbolic values each: s*2^e + o (+1/3) for e around 0, the type's width and the float16 limit, the largest "
                "finite value of every float format +- 1/3 in both signs, every string of up to two characters over seven character classes (rendered literally or through \\u / \\U / named escapes, either quote), booleans, a set; "
                "each pair is rendered with an exact DSDL expression and read; accepted iff Compliant and the stored value is "
                "the exact rational / code point. Every case is non-trivial; distinct by (type, value)")
    ctx.assumptions = ["TLC's evaluation of the specification", "C04 establishes that the boundary expressions evaluate exactly"]
    c02.run_cfg(ctx, "Constants", "Constants.cfg", worker, "const", shuffle=True)
    c02.consume(ctx, core.pmap(illegal_types_worker, [0], procs=1), "illegal")
    c02.consume(ctx, core.pmap(literal_forms_worker, [0], procs=1), "literals")
    ctx.sample({"type": "int13", "value": "-(2 ** 12) - 1", "expected": "rejected"})

def replay(ctx, rec):
    print("replay: re-run ./check %s --tier %s --seed %s (cases are enumerated by TLC)" % (ctx.pid, rec.get("tier"), rec.get("seed")))
    return 0
