"""C18 - model objects are immutable values with a sound equality / hash / pickle contract.

TLC: Values.tla - KeyEqualityLaws over every ordered pair of 100 type descriptions (primitives, arrays, composites of
equal / different names, fields and exact / approximate bit length sets, sealed and delimited): reflexive, symmetric,
equal sets never told apart, verdict yes / no / either; ProjectionUnchanged over every sequence of <= 3 (accessor,
mutation) steps.
Binding A: both objects of a pair are built independently (separate scratch trees, separate reads); ==, != and hash are
compared with the verdict; attributes (Field / Constant) and expression values and BitLengthSets likewise; pickling
round-trips; accessor histories are replayed on a real composite with the projection observed after every step.
"""
from __future__ import annotations
import copy, pickle, random
from .. import core, tlc, tlaval, dsdlio, dsdlgen
from ..tlaval import Rec
from . import c02

def strip_names(t):
    """Values.tla composites carry their definition name `nm`; dsdlgen wants plain records + a name."""
    return t

def build(t, seed):
    """Build the real object for description t in its own scratch tree; returns (object, Field attribute)."""
    g = dsdlgen.Gen(seed)
    def reg(x):
        # register every composite under its own name so that the string forms are the intended ones
        k = x["k"]
        if k in ("fix", "var"):
            reg(x["e"])
        elif k in ("st", "un"):
            for f in x["f"]:
                reg(f)
            g.composite(Rec({kk: vv for kk, vv in x.items()}), name=x["nm"])
        elif k == "del":
            for f in x["inner"]["f"]:
                reg(f)
            g.composite(Rec({kk: vv for kk, vv in x.items()}), name=x["nm"])
    reg(t)
    dsdlgen.wrap_field(g, t)
    with dsdlio.Tree(g.files, "c18") as tr:
        status, res, _ = dsdlio.read_ns(tr.path("ns"))
        if status != "ok":
            raise RuntimeError("rejected: %s %s" % (dsdlio.err_info(res), g.files))
        W = [x for x in res if x.full_name == "ns.W"][0]
        return W.fields[0].data_type, W.fields[0], W

def pickle_diff(x):
    d = []
    ys = []
    for proto in range(pickle.HIGHEST_PROTOCOL + 1):      # every protocol, not only the default one
        try:
            ys.append(pickle.loads(pickle.dumps(x, protocol=proto)))
        except Exception as ex:
            d.append("pickling with protocol %d failed: %s: %s" % (proto, type(ex).__name__, str(ex)[:80]))
    for y in ys[:-1]:
        if not (y == x) or hash(y) != hash(x) or str(y) != str(x):
            d.append("a pickled copy (older protocol) differs")
    if not ys:
        return d
    y = ys[-1]
    if not (y == x and x == y):
        d.append("pickled copy compares unequal")
    if hash(y) != hash(x):
        d.append("pickled copy has a different hash")
    if str(y) != str(x) or repr(y) != repr(x):
        d.append("pickled copy has a different string form")
    try:
        if set(y.bit_length_set) != set(x.bit_length_set) or y.alignment_requirement != x.alignment_requirement:
            d.append("pickled copy has a different layout")
    except (TypeError, AttributeError):
        pass
    import pydsdl
    if isinstance(x, pydsdl.CompositeType):
        for a in ("full_name", "version", "deprecated", "fixed_port_id", "source_file_path", "source_file_path_to_root", "extent", "doc"):
            if getattr(x, a) != getattr(y, a):
                d.append("pickled copy differs in %s" % a)
        if [str(a) for a in x.attributes] != [str(a) for a in y.attributes]:
            d.append("pickled copy differs in attributes")
    return d

@core.safe
def pair_worker(arg):
    block, seed = arg
    st = tlaval.parse_state_block(block)
    if st["ph"] != 2:
        return None
    a, b, verdict = st["case"]["a"], st["case"]["b"], st["out"]
    h = hash(block)
    diff = []
    try:
        xa, fa, Wa = build(a, seed + h % 97)
        xb, fb, Wb = build(b, seed + 1000 + h % 89)
    except RuntimeError as ex:
        return {"nt": True, "key": "x", "bad": {"kind": "values", "case": tlaval.to_json(st["case"]), "diff": [("rejected", str(ex)[:300])]}}
    eq, eq2, ne = (xa == xb), (xb == xa), (xa != xb)
    if eq != eq2:
        diff.append(("equality is not symmetric", eq, eq2))
    if ne == eq:
        diff.append(("!= is not the negation of ==", eq, ne))
    if not (xa == xa and xb == xb):
        diff.append(("equality is not reflexive",))
    if eq and hash(xa) != hash(xb):
        diff.append(("equal objects have different hashes",))
    if verdict == "yes" and not eq:
        diff.append(("independently built equal descriptions compare unequal", str(xa), str(xb)))
    if verdict == "no" and eq:
        diff.append(("objects differing in kind, string form or bit length set compare equal", str(xa), str(xb),
                     sorted(xa.bit_length_set)[:8], sorted(xb.bit_length_set)[:8]))
    # attributes follow their types (names are equal: both are `x` or padding)
    try:
        feq = (fa == fb)
        if feq != eq:
            diff.append(("Field equality does not follow its data type", feq, eq))
        if feq and hash(fa) != hash(fb):
            diff.append(("equal fields have different hashes",))
    except Exception as ex:
        diff.append(("exception comparing fields", type(ex).__name__, str(ex)[:100]))
    # the bit length sets themselves: equal sets are never reported different; hash consistent
    ba, bb = xa.bit_length_set, xb.bit_length_set
    if set(ba) == set(bb) and not (ba == bb):
        diff.append(("BitLengthSet equality reports two equal sets as different", sorted(ba)[:8]))
    if (ba == bb) and hash(ba) != hash(bb):
        diff.append(("equal BitLengthSets have different hashes",))
    # after all these read-only operations the parts of the objects still equal freshly built ones
    import pydsdl
    if isinstance(xa, pydsdl.CompositeType) and h % 3 == 0:
        xc, _fc, _Wc = build(a, seed + 5000 + h % 83)
        for f1, f2 in zip(xa.fields, xc.fields):
            t1, t2 = f1.data_type, f2.data_type
            if not (t1 == t2) or hash(t1) != hash(t2) or set(t1.bit_length_set) != set(t2.bit_length_set) \
                    or set(t1.bit_length_set % 32) != set(t2.bit_length_set % 32):
                diff.append(("a field type of a used object no longer equals a freshly built one", str(t1),
                             sorted(t1.bit_length_set % 32), sorted(t2.bit_length_set % 32)))
    if h % 7 == 0:
        for o in (xa, fa, Wa):
            for d in pickle_diff(o):
                diff.append((d, str(o)))
    r = {"nt": verdict != "yes" or a != b, "key": core.jhash([tlaval.to_json(a), tlaval.to_json(b)])}
    if diff:
        r["bad"] = {"kind": "values", "case": tlaval.to_json(st["case"]), "verdict": verdict, "diff": diff[:5]}
    return r

ACC_FILES = {
    "st": {"ns/sub/T.1.0.dsdl": "# doc\nuint8 a\nvoid8\nuint16 K = 7\nbool b\n@sealed\n"},
    "un": {"ns/sub/T.1.0.dsdl": "# doc\n@union\nuint8 a\nuint16 K = 7\nbool b\n@sealed\n"},
    "del": {"ns/sub/T.1.0.dsdl": "uint8 a\nvoid8\nuint16 K = 7\nbool b\n@extent 64\n"},
    "svc": {"ns/sub/T.1.0.dsdl": "uint8 a\nuint16 K = 7\n@sealed\n---\nbool b\nvoid8\nuint8 Q = 1\n@extent 64\n"},
}
ACC_FILES["inner"] = ACC_FILES["del"]
ACC_FILES["req"] = ACC_FILES["svc"]

def _acc_object(kind, tag):
    """-> (object, the caller's list handed to the constructor or None)"""
    if kind in ("bst", "bun", "bdel", "gst", "tst"):
        import pydsdl
        from pathlib import Path
        u8 = pydsdl.UnsignedIntegerType(8, pydsdl.PrimitiveType.CastMode.SATURATED)
        u16 = pydsdl.UnsignedIntegerType(16, pydsdl.PrimitiveType.CastMode.SATURATED)
        arg = [pydsdl.Field(u8, "a"), pydsdl.Constant(u16, "K", pydsdl._expression.Rational(7)), pydsdl.Field(pydsdl.BooleanType(), "b")]
        if kind != "bun":
            arg.insert(1, pydsdl.PaddingField(pydsdl.VoidType(8)))
        cls = pydsdl.UnionType if kind == "bun" else pydsdl.StructureType
        form = arg if kind not in ("gst", "tst") or tag != "c18a" else (x for x in arg) if kind == "gst" else tuple(arg)
        t = cls(name="ns.sub.T", version=pydsdl.Version(1, 0), attributes=form, deprecated=False, fixed_port_id=None,
                source_file_path=Path("/nonexistent/ns/sub/T.1.0.dsdl"), has_parent_service=False, doc="doc")
        if kind == "bdel":
            t = pydsdl.DelimitedType(t, 64)
        return t, (arg if kind in ("bst", "bun", "bdel") else None)
    with dsdlio.Tree(ACC_FILES[kind], tag) as tr:
        status, res, _ = dsdlio.read_ns(tr.path("ns"))
    t = res[0]
    if kind == "inner":
        return t.inner_type, None
    if kind == "req":
        return t.request_type, None
    return t, None

def _acc_proj(t):
    def guard(f):
        try:
            return f()
        except Exception as ex:                 # a service type has no bit length set of its own
            return ("exception", type(ex).__name__)
    return (t.full_name, t.short_name, t.root_namespace, t.full_namespace, str(t), tuple(t.name_components),
            tuple(t.namespace_components), tuple(str(a) for a in t.attributes), tuple(str(a) for a in t.fields),
            tuple(str(a) for a in t.fields_except_padding), tuple(str(a) for a in t.constants),
            guard(lambda: tuple(sorted(t.bit_length_set))), hash(t), guard(lambda: t.extent),
            guard(lambda: tuple((f.name, tuple(sorted(o))) for f, o in t.iterate_fields_with_offsets())))

@core.safe
def acc_worker(arg):
    import pydsdl
    block, seed = arg
    st = tlaval.parse_state_block(block)
    if st["ph"] < 2:
        return None
    kind, warm, hist = st["case"]["obj"], st["case"]["warm"], st["case"]["h"]
    t, ctor_arg = _acc_object(kind, "c18a")
    # what the object must show is taken from an independently built twin, so that a cold object is not touched
    # before the first accessor call of the history (a first read may behave differently from later ones)
    p0 = _acc_proj(_acc_object(kind, "c18b")[0])
    diff = []
    if warm and _acc_proj(t) != p0:
        diff.append(("an object and its independently built twin show different things", kind))
    for n, step in enumerate(hist):
        lst = ctor_arg if step["acc"] == "ctor_arg" else getattr(t, step["acc"])
        try:
            op = step["op"]
            if op == "append":
                lst.append("zz")
            elif op == "clear":
                lst.clear()
            elif op == "pop":
                if lst:
                    lst.pop()
            elif op == "reverse":
                lst.reverse()
            elif op == "setitem":
                if lst:
                    lst[0] = "zz"
        except (AttributeError, TypeError):
            pass            # an immutable sequence is as good as a copy
        try:
            p = _acc_proj(t)
        except Exception as ex:
            p = ("exception", type(ex).__name__, str(ex)[:100])
        if p != p0:
            diff.append(("step %d: mutating the list %s (%s) changed the object" % (n + 1, "handed to the constructor" if
                         step["acc"] == "ctor_arg" else "returned by " + step["acc"], step["op"]),
                         [x for x, y in zip(p, p0) if x != y][:3]))
            break
    r = {"nt": True, "key": core.jhash(tlaval.to_json(st["case"]))}
    if diff:
        r["bad"] = {"kind": "aliasing", "case": tlaval.to_json(st["case"]), "diff": diff}
    return r

_XPROC = r'''
import sys, pickle, json
sys.path.insert(0, sys.argv[1]); sys.dont_write_bytecode = True
import pydsdl
types = {str(t): t for t in pydsdl.read_namespace(sys.argv[2])}
got = pickle.load(open(sys.argv[3], "rb"))
bad = []
for y in got:
    f = types[str(y)]
    if not (y == f and f == y):
        bad.append(["unpickled object differs from the freshly read one", str(y)])
    elif hash(y) != hash(f):
        bad.append(["unpickled object equals the freshly read one but has another hash", str(y)])
    if not isinstance(y, pydsdl.ServiceType) and (y.bit_length_set != f.bit_length_set or hash(y.bit_length_set) != hash(f.bit_length_set)):
        bad.append(["bit length set of the unpickled object", str(y)])
    for a, b in zip(y.attributes, f.attributes):
        if not (a == b) or hash(a) != hash(b):
            bad.append(["attribute of the unpickled object", str(a)])
print(json.dumps(bad))
'''

@core.safe
def cross_process_worker(seed):
    """Pickles travel between processes: objects that were used (hashed, compared, queried) here are unpickled in another
    interpreter with another hash seed and must equal - and hash like - the objects freshly read there."""
    import os, subprocess, sys, json, tempfile
    import pydsdl
    fs = {"ns/P.1.0.dsdl": "uint8 a\nuint16[<=3] b\nfloat32 K = 1.5\n@sealed\n", "ns/U.1.0.dsdl": "@union\nns.P.1.0 p\nbool q\n@extent 128\n",
          "ns/S.1.0.dsdl": "ns.U.1.0[<=2] us\n@sealed\n---\nns.P.1.0 p\n@extent 256\n", "ns/7000.D.1.0.dsdl": "@deprecated\nvoid3\nuint5 x\n@sealed\n"}
    diff = []
    with dsdlio.Tree(fs, "c18x") as tr:
        status, res, _ = dsdlio.read_ns(tr.path("ns"))
        objs = list(res)
        # use them first: hash, compare, query
        _ = {o: 1 for o in objs}
        _ = [o == p for o in objs for p in objs]
        _ = [sorted(o.bit_length_set) for o in objs if not isinstance(o, pydsdl.ServiceType)]
        fd, path = tempfile.mkstemp(prefix="verif-pickle-")
        os.close(fd)
        try:
            for proto in (2, pickle.HIGHEST_PROTOCOL):
                with open(path, "wb") as f:
                    pickle.dump(objs, f, protocol=proto)
                for hs in ("1", "12345"):
                    p = subprocess.run([sys.executable, "-c", _XPROC, str(core.REPO), str(tr.path("ns")), path], capture_output=True, text=True,
                                       env=dict(os.environ, PYTHONHASHSEED=hs, PYTHONDONTWRITEBYTECODE="1"), timeout=120)
                    if p.returncode != 0:
                        diff.append(("unpickling in another process failed", proto, hs, p.stderr.strip().splitlines()[-1][:200] if p.stderr.strip() else ""))
                    else:
                        for b in json.loads(p.stdout.strip().splitlines()[-1]):
                            diff.append((b[0], b[1], "protocol %d, hash seed %s" % (proto, hs)))
        finally:
            os.unlink(path)
    r = {"nt": True, "key": "cross-process-pickle"}
    if diff:
        r["bad"] = {"kind": "values-pickle", "case": "objects pickled here, unpickled in a process with another hash seed", "diff": diff[:6]}
    return r

@core.safe
def expr_worker(seed):
    """Expression values and bit length sets built independently from equal / different descriptions."""
    import pydsdl
    from pydsdl import _expression as E
    from fractions import Fraction
    diff = []
    mk = [("rat", lambda: E.Rational(Fraction(3, 2))), ("rat", lambda: E.Rational(Fraction(6, 4))), ("rat2", lambda: E.Rational(2)),
          ("bool", lambda: E.Boolean(True)), ("boolf", lambda: E.Boolean(False)), ("str", lambda: E.String("ab")), ("str", lambda: E.String("a" + "b")),
          ("str2", lambda: E.String("abc")), ("set", lambda: E.Set([E.Rational(1), E.Rational(2)])), ("set", lambda: E.Set([E.Rational(2), E.Rational(1), E.Rational(1)])),
          ("nfc", lambda: E.String("caf\u00e9")), ("nfd", lambda: E.String("cafe\u0301")), ("ang", lambda: E.String("\u212b")),
          ("aring", lambda: E.String("\u00c5")), ("set2", lambda: E.Set([E.Rational(1)])), ("sets", lambda: E.Set([E.String("a")])), ("rat1", lambda: E.Rational(1)), ("boolt", lambda: E.Boolean(True))]
    for ka, fa in mk:
        for kb, fb in mk:
            a, b = fa(), fb()
            same = (ka.rstrip("t") == kb.rstrip("t")) and ka[-1] not in "2sf1" or ka == kb
            same = (ka == kb) or ({ka, kb} == {"bool", "boolt"})
            unicode_variant = {ka, kb} in ({"nfc", "nfd"}, {"ang", "aring"})
            try:
                eq = (a == b)
            except Exception as ex:
                diff.append(("exception", ka, kb, type(ex).__name__))
                continue
            if eq is NotImplemented:
                eq = False
            if bool(eq) != same and not unicode_variant:      # canonically equivalent strings: either answer, but consistently
                diff.append(("expression value equality", ka, kb, bool(eq), same))
            if bool(eq) and str(a) != str(b):
                diff.append(("equal expression values have different string forms", ka, kb))
            if bool(eq) and (E.Set([a]) != E.Set([b]) or len({a, b}) != 1):
                diff.append(("equal expression values are distinct members of a set", ka, kb))
            if bool(eq) and hash(a) != hash(b):
                diff.append(("equal expression values have different hashes", ka, kb))
            if bool(eq) != bool(b == a):
                diff.append(("not symmetric", ka, kb))
            for o in (a,):
                y = pickle.loads(pickle.dumps(o))
                if not (y == o) or str(y) != str(o) or hash(y) != hash(o):
                    diff.append(("pickle round trip of expression value", ka))
    # NFC: equal hashes for equal strings (equality of String objects is by code points; the DSDL == operator normalises)
    rng = random.Random(seed)
    B = pydsdl.BitLengthSet
    for _ in range(300):
        s1 = set(rng.sample(range(0, 70), rng.randrange(1, 5)))
        x = B(s1); y = B(sorted(s1)); z = B(s1) + 0
        w = B(set(v + rng.choice([0, 0, 32, 64]) for v in s1))
        for p, q in ((x, y), (x, z), (y, z)):
            if not (p == q) or hash(p) != hash(q):
                diff.append(("BitLengthSets with equal elements compare unequal / hash differently", sorted(s1)))
        if (x == w) and hash(x) != hash(w):
            diff.append(("equal BitLengthSets (approximately) with different hashes", sorted(s1), sorted(w)))
        if (x == w) != (w == x):
            diff.append(("BitLengthSet equality not symmetric",))
        if set(x) != set(w) and (min(s1), max(s1)) != (w.min, w.max) and x == w:
            diff.append(("BitLengthSets with different bounds compare equal", sorted(s1), sorted(w)))
        y2 = pickle.loads(pickle.dumps(z))
        if not (y2 == z) or set(y2) != set(z):
            diff.append(("pickle round trip of BitLengthSet", sorted(s1)))
    r = {"nt": True, "key": "expr"}
    if diff:
        r["bad"] = {"kind": "values-expr", "case": "expression values and bit length sets", "diff": diff[:6]}
    return r

def run(ctx):
    ctx.rule = ("TLC enumerates every ordered pair of 100 type descriptions with the verdict must-equal / must-differ / either, "
                "and every sequence of <= 2 (quick) / 3 (accessor, mutation) steps over six list accessors and five mutations on six kinds "
                "of object (structure, union, delimited and its inner type, service and its request), each started cold (no "
                "accessor read before the history; the expected projection comes from an independently built twin) and warm; each pair "
                "is built twice independently (separate trees and reads) and ==, !=, hash, Field equality and BitLengthSet "
                "equality are compared with the verdict; 1/7 of the pairs are pickled; each accessor history is replayed with "
                "the projection observed after every step; 14 x 14 expression values and 300 random bit length sets are "
                "compared. Non-trivial = pair of different descriptions; distinct by hash")
    ctx.assumptions = ["TLC's evaluation of the specification", "byte / utf8 element types and service types are not in the universe of pairs"]
    c02.run_cfg(ctx, "Values", "Values_pairs.cfg", pair_worker, "pairs", shuffle=True)
    c02.run_cfg(ctx, "Values", "Values_acc_quick.cfg" if ctx.tier == "quick" else "Values_acc.cfg", acc_worker, "acc",
                mk=lambda blocks: [(b, ctx.seed) for b in blocks])
    c02.consume(ctx, core.pmap(expr_worker, [ctx.seed], procs=1), "expr")
    c02.consume(ctx, core.pmap(cross_process_worker, [ctx.seed], procs=1), "xproc")
    ctx.sample({"a": "struct X {uint8[<=35]}", "b": "struct X {uint8[<=36]; void8}", "verdict": "no or either by approximation"})

def replay(ctx, rec):
    print("replay: re-run ./check %s --tier %s --seed %s (cases are enumerated by TLC)" % (ctx.pid, rec.get("tier"), rec.get("seed")))
    return 0
