"""C13 - bad input yields InvalidDefinitionError with a path, never a crash / InternalError.

TLC: Funnel.tla - (1) EscapesOnlyIDE / RawNeverLaundered over every (exception class, raise site): what escapes the
layered handlers is an InvalidDefinitionError with a path exactly for origins of the InvalidDefinition family, so the
property is an obligation on every raise site; (2) the mutation machine enumerates every single (and, sampled, double)
token mutation - delete, duplicate, swap, replace by any of 116 vocabulary entries - of three seed definitions.
Binding A: every mutated text is read; the outcome must be a model or an InvalidDefinitionError whose path is the
mutated file (or a dependency).  Seeded character noise, control characters, file-name shapes and duplicate
name+version files are added by the harness.
"""
from __future__ import annotations
import random
from .. import core, tlc, tlaval, dsdlio, funnel_seeds as fs
from . import c02

def apply_ops(tokens, ops):
    toks = list(tokens)
    for op in ops:
        i = min(op["i"], len(toks)) - 1
        if i < 0:
            continue
        k = op["k"]
        if k == "delete":
            del toks[i]
        elif k == "duplicate":
            toks.insert(i, toks[i])
        elif k == "swap":
            j = (i + 1) % len(toks)
            toks[i], toks[j] = toks[j], toks[i]
        else:
            toks[i] = fs.VOCAB[op["r"] - 1]
    return toks

def join(toks):
    out = ""
    for t in toks:
        if t == "\n" or t == "\r\n":
            out += t
        else:
            out += ("" if out == "" or out.endswith(("\n", " ")) else " ") + t
    return out

def classify(status, res, file_suffix):
    """None if the outcome is admissible, else a diff tuple (+ cause)."""
    import pydsdl
    if status in ("ok", "skipped"):
        return None
    if isinstance(res, pydsdl.InvalidDefinitionError):
        if res.path is None:
            return ("InvalidDefinitionError without a path", type(res).__name__, str(res)[:200]), None
        return None
    txt = str(res)
    cause = None
    if "Exceeds the limit (4300 digits)" in txt:
        # the known finding is the rendering of a huge Rational (Rational.__str__); the limit met anywhere else is another defect
        import traceback
        site, ex = "?", res
        while ex is not None:
            fr = [f for f in traceback.extract_tb(ex.__traceback__) if "/pydsdl/" in f.filename]
            if fr:
                site = fr[-1].filename.rsplit("/", 1)[-1] + ":" + fr[-1].name
            ex = ex.__cause__
        cause = "int-max-str-digits@" + site
    return ("escaped exception is not an InvalidDefinitionError", type(res).__name__, txt[:300]), cause

import re
_NUM = re.compile(r"0[xX][0-9a-fA-F_]+|0[bB][01_]+|0[oO][0-7_]+|\d[\d_]*(?:\.\d*)?(?:[eE][+-]?\d+)?|\.\d+(?:[eE][+-]?\d+)?")

def unbounded(text: str) -> bool:
    """Texts whose evaluation is not of bounded magnitude (the statement bounds exponents): a line with two power
    operators, or a power operator together with a number above 64 / in exponent notation."""
    for line in text.replace("\r", "\n").split("\n"):
        k = line.count("**")
        if k == 0:
            continue
        if k >= 2 and not line.strip().startswith(("@print 2 ** 2 ** 2 ** 2", "@print 1 ** 1 ** 1")):
            return True
        for m in _NUM.findall(line):
            try:
                v = float(int(m.replace("_", ""), 0)) if re.match(r"0[xXbBoO]", m) else float(m.replace("_", ""))
            except (ValueError, OverflowError):
                return True
            if v > 64 and "(10**400)**0.5" not in line.replace(" ", "") and "10 ** 5000" not in line and "2 ** 20000" not in line:
                return True
    return False

_FAMILY = {}
def family(cls_name: str) -> str:
    """Family of an exception class name as logged by the hooks."""
    import pydsdl
    if cls_name in ("ParseError",):
        return "ParseError"
    if cls_name == "VisitationError":
        return "Visitation"
    if cls_name.startswith("RAW:"):
        return "Raw"
    if cls_name not in _FAMILY:
        import gc
        fam = "Raw"
        for c in _all_subclasses(pydsdl.FrontendError):
            if c.__name__ == cls_name:
                fam = "IDE" if issubclass(c, pydsdl.InvalidDefinitionError) else "Internal"
        _FAMILY[cls_name] = fam
    return _FAMILY[cls_name]

def _all_subclasses(c):
    out = [c]
    for s_ in c.__subclasses__():
        out.extend(_all_subclasses(s_))
    return out

def funnel_record(events, res):
    """The chain of `convert` events of one failed read -> a record for TraceFunnel.tla (None if there is none)."""
    import pydsdl
    paths = {}
    def pid(p):
        if p in (None, "None"):
            return 0
        return paths.setdefault(str(p), len(paths) + 1)
    steps, own = [], 0
    for e in events:
        if e["ev"] == "read_end" and not e["ok"]:
            own = pid(e["file"])
        elif e["ev"] == "convert":
            steps.append({"layer": e["layer"], "fam": family(e["cls"]), "line": e["line"] or 0, "path": pid(e["path"]),
                          "at": e["at"] or 0, "own": own if e["layer"] == "read" else 0})
    if not steps:
        return None
    fam = "IDE" if isinstance(res, pydsdl.InvalidDefinitionError) else ("Internal" if isinstance(res, pydsdl.FrontendError) else "Raw")
    return {"steps": steps, "final": {"fam": fam, "line": getattr(res, "line", None) or 0, "path": pid(getattr(res, "path", None))}}

def read_text(text, extra_files=None, want_trace=False):
    if unbounded(text if isinstance(text, str) else text.decode("utf8", "replace")):
        return ("skipped", None, None) if want_trace else ("skipped", None)
    files = dict(fs.DEP_FILES)
    files.update(fs.LOOKUP_FILES)
    files["ns/A.1.0.dsdl"] = text
    files.update(extra_files or {})
    with dsdlio.Tree(files, "c13") as tr:
        if not want_trace:
            return dsdlio.read_ns(tr.path("ns"), [tr.path("lk/dep2")])[:2]
        from pydsdl import _verif_trace
        _verif_trace.drain()
        status, res, _ = dsdlio.read_ns(tr.path("ns"), [tr.path("lk/dep2")])
        rec = funnel_record(_verif_trace.drain(), res) if status == "err" else None
        return status, res, rec

@core.safe
def worker(arg):
    block, mod = arg
    if not core.sampled(block, mod):
        return None
    st = tlaval.parse_state_block(block)
    if st["ph"] < 2:
        return None
    c = st["case"]
    toks = apply_ops(fs.SEEDS[c["seed"] - 1], c["ops"])
    text = join(toks)
    status, res, frec = read_text(text, want_trace=True)
    bad = classify(status, res, "A.1.0.dsdl")
    used = [t_ for t_ in toks if t_ in fs.BAD_DEPS]
    if not bad and status == "err" and len(set(used)) == 1:
        # the mutation refers to a dependency that is itself faulty: if the same text with a sound dependency in its place is
        # accepted, the dependency's file is the offending one and the error must name it
        status2, _res2 = read_text(join([("ns.Dep.1.0" if t_ in fs.BAD_DEPS else t_) for t_ in toks]))
        if status2 == "ok" and not str(res.path).endswith("/" + fs.BAD_DEPS[used[0]]):
            bad = (("the error does not name the offending file (the faulty dependency)", str(res.path)[-40:], type(res).__name__), None)
    r = {"nt": status == "err", "key": core.jhash(tlaval.to_json(c)), "skipped": status == "skipped", "funnel": frec, "text": text}
    if bad:
        r["bad"] = {"kind": "mutation", "case": tlaval.to_json(c), "text": text, "diff": [bad[0]]}
        if bad[1]:
            r["bad"]["cause"] = bad[1]
    return r

CORNERS = ["@assert (-8) ** (1/3) == -2", "@print (10**400) ** 0.5", "@print '\\U00110000'", "uint8 X = '\\ud800'", "@print 10 ** 5000",
           "float16 X = 1e999999", "@print 1 / 0", "@print 1 % 0", "@print 0 ** -1", "@print {}", "@print {1, true}", "@print 2 ** 0.5",
           "@print (-1) ** 0.5", "@print 1e400 * 1e400 / 1e799", "uint8[<=2**70] x", "uint8 x\n@extent 2**70 * 8\n---", "@print 'a' * 3",
           "@print true + true", "@print !1", "@print -true", "@print {1}.nope", "@print ns.Dep.1.0.NOPE", "@print ns.Svc.1.0._extent_",
           "ns.Svc.1.0 s", "ns.Svc.1.0[2] s", "@union\nns.Svc.1.0 a\nuint8 b", "@print ns.Svc.1.0._bit_length_", "ns.A.1.0 selfref",
           "uint8 a\nuint8 a", "uint8 truncated", "@assert", "@print", "@extent", "@sealed 1", "@union 1", "@deprecated 1", "---\n---",
           "@print " + "(" * 12 + "1" + ")" * 12, "@print " + "-" * 1 + "(" + "-(" * 10 + "1" + ")" * 10 + ")", "@print " + "{" * 10 + "1" + "}" * 10,
           "ns.Svc.1.0 s\n@print _offset_", "uint8 a\nns.Svc.1.0 s\n@assert _offset_ % 8 == {0}", "@union\nuint8 a\nns.Svc.1.0 s\n@print _offset_",
           "ns.Svc.1.0[<=2] s\n@print _offset_", "@print ns.Svc.1.0", "@print {ns.Svc.1.0}", "@assert ns.Svc.1.0 == ns.Svc.1.0",
           "@print " + "(" * 50 + "1" + ")" * 50, "@print " + "(" * 400 + "1" + ")" * 400, "@print " + "{" * 90 + "1" + "}" * 90,
           "uint8[<=" + "(" * 80 + "1" + ")" * 80 + "] a", "@print 1" + " ** 1" * 3000, "@print 1" + " + 1" * 3000, "@print " + "!" * 3000 + "true",
           "uint8 X = " + "-(" * 200 + "1" + ")" * 200, "@assert " + "(" * 45 + "true" + ")" * 45, "@print " + "(" * 60 + "1" + ")" * 59,
           "uint8[<=10 ** 5000] a", "uint8[<2 ** 20000] a", "uint8[10 ** 5000] a", "@assert 10 ** 5000 == 1", "@extent 10 ** 5000", "uint8 X = 10 ** 5000",
           "@print 1" + "0" * 5000, "void8\n@assert _offset_ == {10 ** 5000}", "@print 'a' + 10 ** 5000", "@print {10 ** 5000}.count",
           "@print 2 ** 2 ** 2 ** 2", "@print 1" + "0" * 400, "uint8 " + "a" * 3000, "@print '" + "x" * 5000 + "'", "# " + "c" * 10000]

@core.safe
def corner_worker(text):
    body = text + "\n@sealed\n" if "@extent" not in text and "---\n---" not in text else text + "\n"
    status, res = read_text(body)
    bad = classify(status, res, "A.1.0.dsdl")
    r = {"nt": True, "key": core.jhash(text)}
    if bad:
        r["bad"] = {"kind": "corner", "case": text[:200], "diff": [bad[0]]}
        if bad[1]:
            r["bad"]["cause"] = bad[1]
    return r

@core.safe
def many_attributes_worker(arg):
    """Definitions that are long rather than deeply nested: n fields / variants / constants."""
    shape, n = arg
    if shape == "fields":
        text = "".join("uint8 f%d\n" % i for i in range(n)) + "@sealed\n"
    elif shape == "variants":
        text = "@union\n" + "".join("uint8 f%d\n" % i for i in range(n)) + "@sealed\n"
    elif shape == "constants":
        text = "".join("uint8 C%d = %d\n" % (i, i % 200) for i in range(n)) + "@sealed\n"
    else:
        text = "".join("uint8[<=2] f%d\n" % i for i in range(n)) + "@extent %d\n" % (n * 64)
    status, res = read_text(text)
    bad = classify(status, res, "A.1.0.dsdl")
    r = {"nt": True, "key": "many-%s-%d" % (shape, n)}
    if bad:
        r["bad"] = {"kind": "many-attributes", "shape": shape, "deep_structure": n >= 150 and shape in ("fields", "varfields") and "RecursionError" in str(bad[0]), "case": {"shape": shape, "n": n}, "diff": [bad[0]]}
    return r

@core.safe
def noise_worker(arg):
    seed, n = arg
    rng = random.Random(seed)
    alphabet = "abcXYZ019_ \t\n\r#@=+-*/%|&^!<>(){}[].,'\"\\\x00\x01\x1f\x7fé ﻿\U0001F600"
    bads = []
    count = 0
    for _ in range(n):
        mode = rng.random()
        if mode < 0.4:
            text = "".join(rng.choice(alphabet) for _ in range(rng.randrange(0, 60)))
        elif mode < 0.8:    # noise injected into a valid definition
            base = join(rng.choice(fs.SEEDS))
            pos = rng.randrange(len(base) + 1)
            text = base[:pos] + "".join(rng.choice(alphabet) for _ in range(rng.randrange(1, 6))) + base[pos + rng.randrange(0, 4):]
        else:               # random token soup
            text = join([rng.choice(fs.VOCAB + ["\n"]) for _ in range(rng.randrange(1, 25))])
        try:
            text.encode("utf8")
        except UnicodeEncodeError:
            continue
        if rng.random() < 0.15:      # the file need not even be text: bytes that are not valid UTF-8 at a random place
            raw = text.encode("utf8")
            pos = rng.randrange(len(raw) + 1)
            text = raw[:pos] + rng.choice([b"\xff", b"\xfe\xff", b"\xc3", b"\xe2\x82", b"\xf0\x9f\x98", b"\x80", b"\xed\xa0\x80", b"\xc0\xaf"]) + raw[pos:]
        status, res = read_text(text)
        if status == "skipped":
            continue
        count += 1
        bad = classify(status, res, "A.1.0.dsdl")
        if bad:
            b = {"kind": "noise", "case": {"seed": seed}, "text": text, "diff": [bad[0]]}
            if bad[1]:
                b["cause"] = bad[1]
            bads.append(b)
    return {"n": count, "bads": bads[:5]}

FILE_NAMES = ["T.1.dsdl", "1.2.T.1.0.dsdl", "T.a.0.dsdl", "x.T.1.0.dsdl", ".1.0.dsdl", "9T.1.0.dsdl", "T x.1.0.dsdl", "T.-1.0.dsdl",
              "²³.Bad.1.0.dsdl", "7⁵.Bad.1.0.dsdl", "①.Bad.1.0.dsdl", "Bad.١.0.dsdl", "Bad.1.².dsdl", "é.1.0.dsdl",
              "Bad.1.0.DSDL", "Bad.1.0.dsdl.dsdl", "..dsdl", "...dsdl", "Bad.999999999999999999999.0.dsdl", "99999999999999999999.Bad.1.0.dsdl",
              "Bad.1.0.uavcan", "1e3.Bad.1.0.dsdl", "0x10.Bad.1.0.dsdl", " .Bad.1.0.dsdl", "Bad.256.0.dsdl", "Bad.0.0.dsdl", "uint8.1.0.dsdl",
              "sub dir/Ok.1.0.dsdl", "sub.dir/Ok.1.0.dsdl", "9sub/Ok.1.0.dsdl", "dir.dsdl/Ok.1.0.dsdl",
              # entries that are named like definitions but are not regular readable files
              "DIR:Empty.1.0.dsdl", "DIR:sub/Empty.1.0.uavcan", "LINK-DANGLING:Dangling.1.0.dsdl", "LINK-LOOP:Loop.1.0.dsdl",
              "LINK-DIR:LinkToDir.1.0.dsdl", "LINK-OUT:Outside.1.0.dsdl", "LINK-OUT:sub/Outside.1.0.uavcan", "LINK-LOOP:sub/Loop.1.0.dsdl"]
DUPLICATES = [({"ns/A.1.0.dsdl": "@sealed\n", "ns/7000.A.1.0.dsdl": "uint8 a\n@sealed\n"}, "same name+version, different bodies"),
              ({"ns/A.1.0.dsdl": "@sealed\n", "ns/A.1.0.uavcan": "uint8 a\n@sealed\n"}, ".dsdl and .uavcan, different bodies"),
              ({"ns/A.1.0.dsdl": "@sealed\n", "ns/A.01.0.dsdl": "uint8 a\n@sealed\n"}, "A.1.0 and A.01.0"),
              ({"ns/A.1.0.dsdl": "@sealed\n", "ns/A.1.0.uavcan": "@sealed\n"}, "same name+version, equal bodies"),
              ({"ns/A.1.0.dsdl": "@sealed\n", "ns/a.1.0.dsdl": "@sealed\n"}, "names differing by case"),
              ({"ns/A.1.0.dsdl": "@sealed\n", "ns/sub/A.1.0.dsdl": "@sealed\n", "ns/SUB/A.1.0.dsdl": "uint8 a\n@sealed\n"}, "namespaces differing by case")]

@core.safe
def filename_worker(arg):
    import pydsdl
    kind, item = arg
    special = None
    if kind == "name":
        if ":" in item and item.split(":")[0].isupper():
            special, item2 = item.split(":", 1)
            files = {"ns/Fine.1.0.dsdl": "@sealed\n"}
        else:
            files = {"ns/" + item: "@sealed\n", "ns/Fine.1.0.dsdl": "@sealed\n"}
        label = item
    else:
        files, label = item
    with dsdlio.Tree(files, "c13f") as tr:
        if special:
            import os
            p = tr.path("ns/" + item2)
            os.makedirs(os.path.dirname(p), exist_ok=True)
            if special == "DIR":
                os.makedirs(p)
            elif special == "LINK-DANGLING":
                os.symlink(tr.path("ns/nowhere.dsdl"), p)
            elif special == "LINK-LOOP":
                os.symlink(p, p)
            elif special == "LINK-DIR":
                os.makedirs(tr.path("elsewhere"))
                os.symlink(tr.path("elsewhere"), p)
            elif special == "LINK-OUT":
                os.makedirs(tr.path("elsewhere"))
                with open(tr.path("elsewhere/Outside.1.0.dsdl"), "w") as f:
                    f.write("@sealed\n")
                os.symlink(tr.path("elsewhere/Outside.1.0.dsdl"), p)
        status, res, _ = dsdlio.read_ns(tr.path("ns"), allow_unregulated=True)
        outcomes = [("read_namespace", status, res)]
        if kind == "name":
            # the same entry handed to read_files as a target, under several designations of target and root
            import os
            from pathlib import Path
            tgt = tr.path("ns/" + (item2 if special else item))
            old = os.getcwd()
            os.chdir(str(tr.root))
            try:
                rel = os.path.relpath(tgt, str(tr.root))
                for targets, roots in (([tgt], [tr.path("ns")]), ([Path(tgt)], ["ns"]), ([rel], []), (rel, tr.path("ns")),
                                       ([tgt, tr.path("ns/Fine.1.0.dsdl")], [Path(tr.path("ns"))])):
                    try:
                        pydsdl.read_files(targets, roots, allow_unregulated_fixed_port_id=True)
                        outcomes.append(("read_files", "ok", None))
                    except BaseException as ex:      # noqa - the class of what escapes is the observation
                        if isinstance(ex, (KeyboardInterrupt, SystemExit)):
                            raise
                        names = lambda x: [os.path.basename(str(y)) for y in (x if isinstance(x, (list, tuple)) else [x])]
                        outcomes.append(("read_files(%r, %r)" % (names(targets), names(roots)), "err", ex))
            finally:
                os.chdir(old)
    r = {"nt": True, "key": core.jhash(label)}
    for api, status, res in outcomes:
        if status == "err" and not isinstance(res, pydsdl.InvalidDefinitionError):
            r["bad"] = {"kind": "file-name", "case": label, "files": sorted(files), "api": api,
                        "diff": [("escaped exception is not an InvalidDefinitionError", api, type(res).__name__, str(res)[:300])]}
            break
    return r

@core.safe
def kinds_worker(arg):
    """A state of Expr.tla's operator x operand-kind grid (shared with C04) as an input text: whatever the operands are,
    the outcome is a model or an InvalidDefinitionError."""
    from . import c04
    block, seed = arg
    st = tlaval.parse_state_block(block)
    if st["ph"] != 9:
        return None
    rng = random.Random(seed * 1000003 + (hash(block) & 0xFFFFFF))
    bads = []
    for toks in (st["out"]["toks"], st["out"]["full"]):
        expr = c04.render(toks, rng)
        for text in ("@print %s\n@sealed\n" % expr, "uint8 X = %s\n@sealed\n" % expr, "uint8[%s] x\n@sealed\n" % expr,
                     "@assert %s\n@sealed\n" % expr, "uint8 a\n@extent %s\n" % expr):
            status, res = read_text(text)
            bad = classify(status, res, "A.1.0.dsdl")
            if bad:
                b = {"kind": "operand-kinds", "case": tlaval.to_json(st["case"]), "text": text, "diff": [bad[0]]}
                if bad[1]:
                    b["cause"] = bad[1]
                bads.append(b)
    r = {"nt": st["out"]["v"]["t"] == "err", "key": "kinds" + core.jhash(tlaval.to_json(st["case"])), "n": 10}
    if bads:
        r["bad"] = bads[0]
    return r

def run_kinds(ctx):
    res = tlc.run("Expr", "Expr_kinds.cfg", dump=True, tag="c13k", timeout=3000)
    ctx.add_tlc(res, "Expr_kinds.cfg")
    if res.violated:
        ctx.spec_violation(res, "Expr_kinds.cfg")
        tlc.cleanup(res)
        return
    blocks = tlaval.split_dump_blocks(res.dump_path)
    tlc.cleanup(res)
    c02.consume(ctx, core.pmap(kinds_worker, [(b, ctx.seed) for b in blocks], chunksize=50), "kinds")

def run_mut(ctx, cfg, mod, collect):
    res = tlc.run("MC_Funnel", cfg, dump=True, tag="c13", timeout=3000)
    ctx.add_tlc(res, cfg)
    if res.violated:
        ctx.spec_violation(res, cfg)
        tlc.cleanup(res)
        return
    blocks = tlaval.split_dump_blocks(res.dump_path)
    tlc.cleanup(res)
    c02.consume(ctx, collect(core.pmap(worker, [(b, mod) for b in blocks], chunksize=100)), cfg)

def run(ctx):
    assert [len(s) for s in fs.SEEDS] == [40, 35, 29] and len(fs.VOCAB) == 116, "spec/MC_Funnel.tla and Funnel.tla mirror these numbers"
    ctx.rule = ("TLC checks the propagation model over every (class, raise site) and enumerates every single token mutation "
                "(delete / duplicate / swap / replace by each of 116 vocabulary entries incl. every operator, bracket, "
                "directive, literal form and targeted corner expression) of three seed definitions, and (sampled) double "
                "mutations; each text is read: model or InvalidDefinitionError with a path. Every state of Expr.tla's operator x operand-kind grid "
                "(17 binary, 3 unary, 4 attribute operators x 20 operand kinds incl. data types and sets of sets / types) is "
                "placed in five expression contexts (@print, constant, capacity, @assert, @extent). 65 corner texts (incl. nesting of 45..400 levels and chains of 3 000 operators), seeded character "
                "noise incl. control characters and byte sequences that are not UTF-8, 39 file-name shapes, each also as a read_files target under five designations (incl. directories and dangling / looping links named like definitions) and 6 duplicate / case-variant file sets are added. "
                "Non-trivial = input that is rejected; distinct by hash of the mutation list / text")
    ctx.assumptions = ["exponents are small (towers such as 2**2**2**2**2**2 do not terminate "
                       "in reasonable time and are outside the statement's bounded magnitude)", "all Unicode strings are sampled, not "
                       "enumerated", "TLC's evaluation of the specification"]
    res = tlc.run("MC_Funnel", "Funnel_prop.cfg", tag="c13p")
    ctx.add_tlc(res, "Funnel_prop.cfg")
    if res.violated:
        ctx.spec_violation(res, "Funnel_prop.cfg")
    tlc.cleanup(res)
    quick = ctx.tier == "quick"
    frecs = []
    def collect(results):
        for r in results:
            if r and r.get("funnel") and "bad" not in r:
                frecs.append((r["funnel"], r["text"]))
        return results
    run_mut(ctx, "Funnel_mut1.cfg", 1, collect)
    run_mut(ctx, "Funnel_mut2.cfg", 30 if quick else 3, collect)
    recs = [dict(f, id=n + 1) for n, (f, _t) in enumerate(frecs)]
    from .. import records
    badf = records.check(ctx, "TraceFunnel", recs, "c13funnel", slices=8)
    for i in sorted(badf)[:40]:
        ctx.violation({"kind": "funnel-trace", "case": recs[i - 1], "text": frecs[i - 1][1],
                       "diff": [("the recorded chain of exception conversions is not the one the propagation rules produce", recs[i - 1]["steps"], recs[i - 1]["final"])]})
    ctx.traces += len(recs)
    ctx.extra["funnel_traces_validated"] = len(recs)
    ctx.exhaustive = False
    run_kinds(ctx)
    c02.consume(ctx, core.pmap(corner_worker, CORNERS, chunksize=2), "corner")
    many = [(sh, n) for sh in ("fields", "variants", "constants", "varfields") for n in (40, 120, 250, 600)]
    c02.consume(ctx, core.pmap(many_attributes_worker, many, chunksize=1), "many")
    n = 600 if quick else 6000
    for r in core.pmap(noise_worker, [(ctx.seed * 1000 + k, n // 16) for k in range(16)], chunksize=1):
        if "harness_exception" in r:
            lf = core.library_failure(r)
            if lf is not None:
                ctx.violation(lf)
                continue
            raise tlc.MachineryError("noise worker failed: %s" % r)
        ctx.count(r["n"])
        ctx.traces += r["n"]
        for b in r["bads"]:
            ctx.violation(b)
    items = [("name", n_) for n_ in FILE_NAMES] + [("dup", d) for d in DUPLICATES]
    c02.consume(ctx, core.pmap(filename_worker, items, chunksize=2), "fname")
    ctx.sample({"seed": 1, "ops": [{"k": "replace", "i": 7, "r": "(-8)**(1/3)"}], "text": "uint8 A = (-8)**(1/3) + 2 * 3 ..."})

def replay(ctx, rec):
    if "text" in rec:
        status, res = read_text(rec["text"])
        print("outcome:", status, type(res).__name__ if status == "err" else "", str(res)[:200] if status == "err" else "")
        bad = classify(status, res, "A.1.0.dsdl")
        if bad:
            print("VIOLATION property=C13 replay=<given>")
            return 1
    return 0
