"""C01 - bit length set algebra is exact.

TLC: BitLengthSets.tla (Tree*, Pool*, Lemma* machines) - SolverExact, MemoTransparent, OperandsUnchanged, lemmas.
Binding A: every dumped tree / call history is replayed through the public BitLengthSet API and compared with `out`.
Binding B': trees with 64-bit repetition counts are recorded and checked by TLC (BLSRecords.tla).
Binding C: lemma table exported by TLC carried to huge k on the implementation.
"""
from __future__ import annotations
import json, os, random
from .. import core, tlc, tlaval
from ..tlaval import Rec

CFG = {
    "quick": {"tree": "BLS_tree_quick.cfg", "pool": "BLS_pool_quick.cfg", "lemma": "BLS_lemma_quick.cfg",
              "records": 6000},
    "thorough": {"tree": "BLS_tree_thorough.cfg", "pool": "BLS_pool_thorough.cfg", "lemma": "BLS_lemma_thorough.cfg",
                 "records": 40000},
}
DMAX = 8

# ------------------------------------------------------------------------------------------------------------
def _build(t, v: int, keep: list):
    """Build the real object for tree t. v selects among equivalent spellings of the public API."""
    from pydsdl import BitLengthSet
    op = t["op"]
    if op == "leaf":
        s = set(t["s"])
        if len(s) == 1 and v % 2:
            return BitLengthSet(next(iter(s)))
        return BitLengthSet(s if v % 3 else sorted(s))
    if op in ("pad", "rep", "rng"):
        c = _build(t["c"], v // 2, keep)
        keep.append((t["c"], c))
        if op == "pad":
            return c.pad_to_alignment(t["r"])
        if op == "rep":
            return c.repeat(t["k"])
        return c.repeat_range(t["k"])
    chs = t["ch"]
    if len(chs) == 2 and v % 4 in (1, 2, 3):
        a, b = chs
        # raw python operands exercise __radd__/__ror__ and the implicit conversion
        def raw(x):
            if x["op"] == "leaf":
                s = set(x["s"])
                return next(iter(s)) if (len(s) == 1 and op == "cat" and v % 8 < 4) else s
            return None
        if v % 4 == 1:
            A, B = _build(a, v // 4, keep), _build(b, v // 5, keep)
            keep.append((a, A)); keep.append((b, B))
            return (A + B) if op == "cat" else (A | B)
        if v % 4 == 2 and raw(a) is not None:
            B = _build(b, v // 4, keep)
            keep.append((b, B))
            return (raw(a) + B) if op == "cat" else (raw(a) | B)
        if v % 4 == 3 and raw(b) is not None:
            A = _build(a, v // 4, keep)
            keep.append((a, A))
            return (A + raw(b)) if op == "cat" else (A | raw(b))
    objs = []
    for i, c in enumerate(chs):
        o = _build(c, v // (2 + i), keep)
        keep.append((c, o))
        # a fixed-length leaf may be handed over as the plain integer / the plain set it stands for
        plain = c["op"] == "leaf" and (v // 7 + i) % 3 == 0
        objs.append((next(iter(c["s"])) if len(c["s"]) == 1 else set(c["s"])) if plain else o)
    from pydsdl import BitLengthSet as B
    # the operands arrive as a list, a tuple, a one-shot iterable, or led by a plain integer (the parameter is an Iterable of
    # BitLengthSet / iterables of int / int)
    form = (v // 4 + len(objs)) % 4
    seq = objs if form == 0 else tuple(objs) if form == 1 else (o_ for o_ in objs) if form == 2 else iter(objs)
    return B.concatenate(seq) if op == "cat" else B.unite(seq)

def _observe(x, dmax: int, expand_first: bool):
    obs = {}
    def analytic():
        obs["min"] = x.min
        obs["max"] = x.max
        obs["fixed"] = x.fixed_length
        obs["mods"] = {d: frozenset(x % d) for d in range(1, dmax + 1)}
        obs["aligned"] = {d: x.is_aligned_at(d) for d in range(1, dmax + 1)}
        obs["aligned_byte"] = x.is_aligned_at_byte()
    def numeric():
        obs["exp"] = frozenset(iter(x))
        obs["len"] = len(x)
    if expand_first:
        numeric(); analytic()
    else:
        analytic(); numeric()
    return obs

def _compare(obs, out, dmax: int):
    diff = []
    if obs["min"] != out["min"]:
        diff.append(("min", obs["min"], out["min"]))
    if obs["max"] != out["max"]:
        diff.append(("max", obs["max"], out["max"]))
    if obs["fixed"] != out["fixed"]:
        diff.append(("fixed_length", obs["fixed"], out["fixed"]))
    for d in range(1, dmax + 1):
        if obs["mods"][d] != out["mods"][d]:
            diff.append(("mod %d" % d, sorted(obs["mods"][d]), sorted(out["mods"][d])))
        if obs["aligned"][d] != out["aligned"][d]:
            diff.append(("is_aligned_at(%d)" % d, obs["aligned"][d], out["aligned"][d]))
    if dmax >= 8 and obs["aligned_byte"] != out["aligned"][8]:
        diff.append(("is_aligned_at_byte", obs["aligned_byte"], out["aligned"][8]))
    if obs["exp"] != out["exp"]:
        diff.append(("iter", sorted(obs["exp"]), sorted(out["exp"])))
    if obs["len"] != len(out["exp"]):
        diff.append(("len", obs["len"], len(out["exp"])))
    return diff

def _norm_out(out):
    """TLC prints functions over 1..n as tuples: index them by divisor."""
    return {"min": out["min"], "max": out["max"], "fixed": out["fixed"], "exp": out["exp"],
            "mods": {d: out["mods"][d - 1] for d in range(1, DMAX + 1)},
            "aligned": {d: out["aligned"][d - 1] for d in range(1, DMAX + 1)}}

def _snapshot(x):
    return (x.min, x.max, frozenset(x % 4), frozenset(x % 3), frozenset(iter(x)))

def _nontrivial_tree(t) -> bool:
    return t["op"] != "leaf"

@core.safe
def tree_worker(block: str):
    st = tlaval.parse_state_block(block)
    if st["ph"] == 0:
        return None
    t, out = st["case"], st["out"]
    h = hash(block)
    v = h % 40
    keep = []
    try:
        x = _build(t, v, keep)
        before = [(sub, _snapshot(o)) for sub, o in keep]
        obs = _observe(x, DMAX, expand_first=bool((h >> 8) % 3 == 0))
        diff = _compare(obs, _norm_out(out), DMAX)
        for (sub, o), (_, snap) in zip(keep, before):
            if _snapshot(o) != snap:
                diff.append(("operand changed", tlaval.to_json(sub), None))
    except Exception as ex:
        diff = [("exception", type(ex).__name__, str(ex)[:200])]
    res = {"nt": _nontrivial_tree(t) and len(out["exp"]) > 1, "key": core.jhash(tlaval.to_json(t))}
    if diff:
        res["bad"] = {"kind": "tree", "case": tlaval.to_json(t), "variant": v, "diff": diff,
                      "expected": tlaval.to_json(out)}
    return res

# ------------------------------------------------------------------------------------------------------------
@core.safe
def pool_worker(block: str):
    from pydsdl import BitLengthSet
    st = tlaval.parse_state_block(block)
    hist, out = st["case"], st["out"]
    if not hist:
        return None
    objs = []
    diff = []
    try:
        for n, c in enumerate(hist):
            f = c["f"]
            if f == "leaf":
                objs.append(BitLengthSet(set(c["s"])))
            elif f == "pad":
                objs.append(objs[c["i"] - 1].pad_to_alignment(c["r"]))
            elif f == "rep":
                objs.append(objs[c["i"] - 1].repeat(c["k"]))
            elif f == "rng":
                objs.append(objs[c["i"] - 1].repeat_range(c["k"]))
            elif f == "cat":
                objs.append(objs[c["i"] - 1] + objs[c["j"] - 1])
            elif f == "uni":
                objs.append(objs[c["i"] - 1] | objs[c["j"] - 1])
            elif f == "q":
                o = objs[c["i"] - 1]
                exp = out["ans"][c["i"] - 1]
                q = c["q"]
                if q["q"] == "min":
                    got, want = o.min, exp["min"]
                elif q["q"] == "max":
                    got, want = o.max, exp["max"]
                elif q["q"] == "exp":
                    got, want = frozenset(o), exp["exp"]
                    # hand the caller's copy back mutated: the object must not notice
                    s = set(o); s.add(10 ** 6)
                else:
                    r = o % q["d"]
                    got, want = frozenset(r), exp["mods"][q["d"] - 1]
                if got != want:
                    diff.append(("call %d %s" % (n + 1, tlaval.to_json(q)), repr(got), repr(want)))
        # after the history: every object answers every query as the specification says (memo transparency,
        # operand immutability)
        for i, o in enumerate(objs):
            exp = out["ans"][i]
            e2 = _norm_out(exp)
            obs = _observe(o, DMAX, expand_first=False)
            for d in _compare(obs, e2, DMAX):
                diff.append(("object %d" % (i + 1),) + d)
    except Exception as ex:
        diff.append(("exception", type(ex).__name__, str(ex)[:200]))
    res = {"nt": any(c["f"] == "q" for c in hist) and any(c["f"] not in ("q", "leaf") for c in hist),
           "key": core.jhash(tlaval.to_json(hist))}
    if diff:
        res["bad"] = {"kind": "pool", "case": tlaval.to_json(hist), "diff": diff}
    return res

# ------------------------------------------------------------------------------------------------------------
BIG_K = [2 ** 16, 2 ** 16 + 1, 2 ** 32 - 1, 2 ** 32, 2 ** 32 + 1, 2 ** 63 - 1, 2 ** 63, 10 ** 19 + 7, 12345678901234567]

def equiv_k(k, d):
    return min(k, d + k % d)

def lemma_transport(ctx, table):
    """table: {(d, frozenset R, k): frozenset residues} exported by TLC for k <= 3d+1."""
    from pydsdl import BitLengthSet
    n = 0
    skipped = 0
    rng = ctx.rng
    keys = sorted({(d, tuple(sorted(R))) for (d, R, k) in table})
    for d, Rt in keys:
        R = frozenset(Rt)
        lifts = [set(R), {r + d * rng.randrange(0, 5) for r in R}]
        for K in rng.sample(BIG_K, 3 if ctx.tier == "quick" else len(BIG_K)):
            e = equiv_k(K, d)
            import math
            if math.comb(len(R) + e - 1, e) > 20000:      # the implementation enumerates this many tuples: keep the replay cheap
                skipped += 1
                continue
            want = table[(d, R, e)]
            want_rng = frozenset().union(*[table[(d, R, j)] for j in range(e + 1)])
            for L in lifts:
                x = BitLengthSet(L)
                try:
                    got = frozenset(x.repeat(K) % d)
                    got_rng = frozenset(x.repeat_range(K) % d)
                    mm = (x.repeat(K).min, x.repeat(K).max, x.repeat_range(K).min, x.repeat_range(K).max)
                    al = x.repeat(K).is_aligned_at(d)
                except Exception as ex:
                    ctx.violation({"kind": "lemma-transport", "case": {"d": d, "R": sorted(L), "k": str(K)},
                                   "diff": [("exception", type(ex).__name__, str(ex)[:200])]})
                    continue
                n += 1
                diff = []
                if got != want:
                    diff.append(("repeat(K) % d", sorted(got), sorted(want)))
                if got_rng != want_rng:
                    diff.append(("repeat_range(K) % d", sorted(got_rng), sorted(want_rng)))
                if mm != (min(L) * K, max(L) * K, 0, max(L) * K):
                    diff.append(("min/max", [str(v) for v in mm], None))
                if al != (want == frozenset({0})):
                    diff.append(("is_aligned_at", al, sorted(want)))
                if diff:
                    ctx.violation({"kind": "lemma-transport", "case": {"d": d, "R": sorted(L), "k": str(K)},
                                   "diff": diff})
                if len(want) > 1:
                    ctx.nontriv("lt:%d:%s:%d" % (d, Rt, K % d))
    ctx.count(n)
    ctx.traces += n
    ctx.extra["lemma_transport_skipped_as_too_costly"] = skipped
    return n

# ---- B': trees with huge counts, verdict by TLC -----------------------------------------------------------------
def _rand_tree(rng, depth, big):
    """Random tree as JSON-able dict; counts may be huge (Python ints)."""
    if depth == 0 or rng.random() < 0.2:
        if rng.random() < 0.08:      # a large literal set (17..40 elements)
            return {"op": "leaf", "s": sorted(rng.sample(range(0, 160), rng.randrange(17, 41)))}
        n = rng.choice([1, 1, 2, 2, 3])
        return {"op": "leaf", "s": sorted(rng.sample(range(0, 20), n))}
    if rng.random() < 0.06:
        # a union (or concatenation) of two large literal sets of equal size that agree in their smallest and largest
        # elements and differ only in the middle: anything that identifies operands by an abbreviation conflates them
        n = rng.randrange(18, 41)
        a = sorted(rng.sample(range(0, 200), n))
        b = list(a)
        for j in rng.sample(range(8, n - 8), rng.randrange(1, max(2, (n - 16) // 2 + 1))):
            cand = [x for x in range(a[7] + 1, a[n - 8]) if x not in b]
            if cand:
                b[j] = rng.choice(cand)
        b = sorted(set(b))
        return {"op": rng.choice(["uni", "uni", "cat"]), "ch": [{"op": "leaf", "s": a}, {"op": "leaf", "s": b}]}
    if rng.random() < 0.06:
        # the SAME operation with the SAME argument on two different sets that agree in min, max and residues modulo 32
        # (equal as far as the approximate equality of bit length sets can tell)
        base = sorted(rng.sample(range(0, 32), rng.randrange(1, 4)))
        lo, hi = base[0], base[0] + 32 * rng.randrange(3, 6)
        x = sorted({lo, hi} | {b + 32 * rng.randrange(0, 3) for b in base})
        y = sorted({lo, hi} | {b + 32 * rng.randrange(0, 3) for b in base})
        if x == y:
            y = sorted(set(y) | {lo + 32})
            x = sorted(set(x) - {lo + 32} | {lo, hi})
        kind = rng.choice(["pad", "rep", "rng"])
        arg = rng.choice([2, 3, 4, 8]) if kind == "pad" else rng.randrange(1, 4)
        mk = (lambda s_: {"op": "pad", "c": {"op": "leaf", "s": s_}, "r": arg}) if kind == "pad" else \
             (lambda s_: {"op": kind, "c": {"op": "leaf", "s": s_}, "k": arg})
        return {"op": rng.choice(["uni", "cat"]), "ch": [mk(x), mk(y)]}
    op = rng.choice(["pad", "rep", "rng", "cat", "uni", "rep", "rng"])
    if op == "pad":
        return {"op": "pad", "c": _rand_tree(rng, depth - 1, big), "r": rng.choice([1, 2, 3, 4, 8, 8, 16])}
    if op in ("rep", "rng"):
        k = rng.choice(big) if rng.random() < 0.7 else rng.randrange(0, 6)
        return {"op": op, "c": _rand_tree(rng, depth - 1, big), "k": k}
    n = rng.choice([2, 2, 3])
    return {"op": op, "ch": [_rand_tree(rng, depth - 1, big) for _ in range(n)]}

def _build_json(t):
    from pydsdl import BitLengthSet
    op = t["op"]
    if op == "leaf":
        return BitLengthSet(set(t["s"]))
    if op == "pad":
        return _build_json(t["c"]).pad_to_alignment(t["r"])
    if op == "rep":
        return _build_json(t["c"]).repeat(t["k"])
    if op == "rng":
        return _build_json(t["c"]).repeat_range(t["k"])
    ch = [_build_json(c) for c in t["ch"]]
    seq = ch if len(ch) % 2 else (c_ for c_ in ch)
    return BitLengthSet.concatenate(seq) if op == "cat" else BitLengthSet.unite(seq)

def _pads(t, acc):
    if t["op"] == "pad":
        acc.append(t["r"])
    for c in ([t["c"]] if "c" in t else t.get("ch", [])):
        _pads(c, acc)
    return acc

def _reduce_counts(t, M):
    """Replace huge k by the representative 2M + (k mod M) (same residues modulo every divisor of M)."""
    t = dict(t)
    if "c" in t:
        t["c"] = _reduce_counts(t["c"], M)
    if "ch" in t:
        t["ch"] = [_reduce_counts(c, M) for c in t["ch"]]
    if "k" in t and t["k"] >= 3 * M:
        t["k"] = 2 * M + (t["k"] % M)
    return t

def _closed_minmax(t):
    """Big-integer evaluation of the specification's SMin / SMax closed forms."""
    op = t["op"]
    if op == "leaf":
        return min(t["s"]), max(t["s"])
    if op == "pad":
        lo, hi = _closed_minmax(t["c"]); r = t["r"]
        return -(-lo // r) * r, -(-hi // r) * r
    if op == "rep":
        lo, hi = _closed_minmax(t["c"]); return lo * t["k"], hi * t["k"]
    if op == "rng":
        lo, hi = _closed_minmax(t["c"]); return 0, hi * t["k"]
    mm = [_closed_minmax(c) for c in t["ch"]]
    if op == "cat":
        return sum(a for a, _ in mm), sum(b for _, b in mm)
    return min(a for a, _ in mm), max(b for _, b in mm)

@core.safe
def record_worker(arg):
    import math
    seed, idx = arg
    rng = random.Random(seed * 7919 + idx)
    while True:
        t = _rand_tree(rng, rng.choice([1, 2, 2, 3]), BIG_K)
        d = rng.choice([1, 2, 3, 4, 5, 6, 7, 8, 8, 8, 12, 16, 32, 64])
        if _est(t, d)[0] <= 20000:
            break
    M = d
    for r in _pads(t, []):
        M = math.lcm(M, r)
    red = _reduce_counts(t, M)
    rec = {"id": idx, "t": red, "d": d, "small": False, "orig": json.dumps(t, default=str)}
    try:
        x = _build_json(t)
        rec["obs"] = sorted(set(x % d))
        lo, hi = _closed_minmax(t)
        if (x.min, x.max) != (lo, hi):
            rec["minmax_bad"] = [str(x.min), str(x.max), str(lo), str(hi)]
        if x.is_aligned_at(d) != (rec["obs"] == [0]):
            rec["minmax_bad"] = ["is_aligned_at inconsistent with % d"]
        if x.fixed_length != (lo == hi):
            rec["minmax_bad"] = ["fixed_length", str(lo), str(hi)]
    except Exception as ex:
        rec["exc"] = "%s: %s" % (type(ex).__name__, str(ex)[:200])
        rec["obs"] = []
    return rec

def _est(t, d):
    """(enumeration cost, bound on the number of residues) of answering `% d` - to keep random cases cheap."""
    import math
    op = t["op"]
    if op == "leaf":
        return len(t["s"]), min(len(t["s"]), d)
    if op == "pad":
        c, n = _est(t["c"], math.lcm(t["r"], d))
        return c + n, min(n, d)
    if op in ("rep", "rng"):
        c, n = _est(t["c"], d)
        e = min(t["k"], 2 * d - 1)
        w = math.comb(n + e - 1, e) if n else 0
        if op == "rng":
            w = sum(math.comb(n + j - 1, j) for j in range(e + 1)) if e < 200 else 10 ** 9
        return c + w, d
    sub = [_est(c, d) for c in t["ch"]]
    if op == "cat":
        return sum(c for c, _ in sub) + math.prod(n for _, n in sub), d
    return sum(c for c, _ in sub), min(d, sum(n for _, n in sub))

def run_records(ctx, n):
    recs = core.pmap(record_worker, [(ctx.seed, i) for i in range(n)], chunksize=200)
    wd = tlc.workdir("c01rec")
    path = wd / "records.ndjson"
    by_id = {}
    with open(path, "w") as f:
        for r in recs:
            if "harness_exception" in r:
                lf = core.library_failure(r)
                if lf is not None:
                    ctx.violation(lf)
                    continue
                raise tlc.MachineryError("record worker failed: %s" % r)
            by_id[r["id"]] = r
            if "exc" in r:
                ctx.violation({"kind": "record", "case": r["orig"], "diff": [("exception", r["exc"])]})
            if "minmax_bad" in r:
                ctx.violation({"kind": "record", "case": r["orig"], "diff": [("min/max/aligned", r["minmax_bad"])]})
            f.write(json.dumps({k: r[k] for k in ("id", "t", "d", "obs", "small")}) + "\n")
    res = tlc.run("BLSRecords", "BLSRecords.cfg", workers=1, env={"RECORDS": str(path)}, tag="c01rec", timeout=1500)
    ctx.add_tlc(res, "BLSRecords")
    bad = _verdict(res, n)
    for i in bad:
        r = by_id[i]
        ctx.violation({"kind": "record", "case": r["orig"], "divisor": r["d"], "reduced": r["t"],
                       "diff": [("% d disagrees with SMod of the specification", r["obs"])]})
    ctx.count(n)
    ctx.traces += n
    for r in recs:
        if len(r["obs"]) > 1:
            ctx.nontriv("rec:" + core.jhash([r["t"], r["d"]]))
    ctx.sample({"record": {k: recs[0][k] for k in ("orig", "d", "obs")}})
    tlc.cleanup(res)
    import shutil
    shutil.rmtree(wd, ignore_errors=True)

def _verdict(res, n):
    import re
    m = re.search(r'<<\s*"VERDICT",\s*(\d+),\s*(\{[^}]*\})\s*>>', res.out)
    if not m or int(m.group(1)) != n:
        raise tlc.MachineryError("no verdict from record checker: %s" % res.out[-1500:])
    return sorted(tlaval.parse(m.group(2)))

# ------------------------------------------------------------------------------------------------------------
def run(ctx):
    cfg = CFG[ctx.tier]
    ctx.rule = ("TLC enumerates operator trees (leaf sets, up to Growth stacked operators, n-ary concat/union), "
                "API call histories on an object pool and lemma instances (d,R,k); each state is replayed through the "
                "public BitLengthSet API and compared with the numeric meaning computed by the specification; "
                "non-trivial = tree with at least one operator and more than one element / history with a query and a "
                "composition / lemma instance with more than one residue; distinct by hash of the abstract case")
    ctx.assumptions = ["TLC's evaluation of the TLA+ set operators", "Python big-integer arithmetic for min/max of "
                       "64-bit repetition counts", "divisors > LemmaD and counts > 3d+1 rely on the lemma's definitional step",
                       "Apalache / z3 for the arithmetic lemmas over unbounded integers (EquivK congruent to k and below 2d; rounding up is idempotent, "
                       "monotone within one alignment step and commutes with adding multiples of the alignment)"]
    # --- trees
    res = tlc.run("BitLengthSets", cfg["tree"], dump=True, tag="c01tree", timeout=3000)
    ctx.add_tlc(res, cfg["tree"])
    if res.violated:
        ctx.spec_violation(res, cfg["tree"])
    else:
        blocks = tlaval.split_dump_blocks(res.dump_path)
        _consume(ctx, core.pmap(tree_worker, blocks, chunksize=500), "tree")
    tlc.cleanup(res)
    # --- pool histories
    res = tlc.run("BitLengthSets", cfg["pool"], dump=True, tag="c01pool", timeout=3000)
    ctx.add_tlc(res, cfg["pool"])
    if res.violated:
        ctx.spec_violation(res, cfg["pool"])
    else:
        blocks = tlaval.split_dump_blocks(res.dump_path)
        _consume(ctx, core.pmap(pool_worker, blocks, chunksize=200), "pool")
    tlc.cleanup(res)
    # --- lemmas
    res = tlc.run("BitLengthSets", cfg["lemma"], dump=True, tag="c01lemma", timeout=3000)
    ctx.add_tlc(res, cfg["lemma"])
    if res.violated:
        ctx.spec_violation(res, cfg["lemma"])
    else:
        table = {}
        for st in tlaval.iter_dump(res.dump_path):
            if st["ph"] == 3:
                c = st["case"]
                table[(c["d"], c["R"], c["k"])] = st["out"]
        n = lemma_transport(ctx, table)
        ctx.sample({"lemma_transport": "repeat(K) %% d and repeat_range(K) %% d for K in %s... against the TLC table at "
                    "EquivK(K,d); %d calls" % ([str(k) for k in BIG_K[:3]], n)})
    tlc.cleanup(res)
    # --- the arithmetic behind the reductions for ALL naturals (Apalache, SMT over unbounded integers)
    from .. import apalache
    apalache.check(ctx, "ArithLemmas", ["EquivKLemma", "PadIdem"] if ctx.tier == "quick" else ["EquivKLemma", "PadIdem", "PadShift"])
    # --- call records with 64-bit counts
    run_records(ctx, cfg["records"])

def _consume(ctx, results, kind):
    for r in results:
        if r is None:
            continue
        if "harness_exception" in r:
            lf = core.library_failure(r)
            if lf is not None:
                ctx.violation(lf)
                continue
            raise tlc.MachineryError("replay worker failed: %s\n%s" % (r["harness_exception"], r["tb"]))
        ctx.count()
        ctx.traces += 1
        if r.get("nt"):
            ctx.nontriv(kind + r["key"])
        if "bad" in r:
            ctx.violation(r["bad"])
        elif len(ctx.samples) < 3 and r.get("nt"):
            pass
    # one sample per kind
    for r in results:
        if r and r.get("nt") and "bad" not in r:
            ctx.sample({kind: r["key"]})
            break

def replay(ctx, rec):
    """Re-execute one recorded case against the current tree."""
    from pydsdl import BitLengthSet  # noqa
    kind = rec.get("kind")
    if kind == "tree":
        t = _from_json(rec["case"])
        keep = []
        x = _build(t, rec.get("variant", 0), keep)
        out = _from_json(rec["expected"])
        obs = _observe(x, DMAX, False)
        exp = _norm_out(out)
        diff = _compare(obs, exp, DMAX)
        print("replay diff:", diff)
        if diff:
            print("VIOLATION property=C01 replay=%s" % rec.get("_path", "<given>"))
            return 1
        return 0
    print("replay of kind %r: re-run the check with the recorded seed (%s)" % (kind, rec.get("seed")))
    return 0

def _from_json(j):
    if isinstance(j, dict):
        if set(j.keys()) == {"set"}:
            return frozenset(_from_json(x) for x in j["set"])
        return Rec({k: _from_json(v) for k, v in j.items()})
    if isinstance(j, list):
        return tuple(_from_json(x) for x in j)
    return j
