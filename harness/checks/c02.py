"""C02 - every type's layout is the Specification's.

TLC: Layout.tla - the declarative layout rules (BLS, Align, Extent, PrefixW, TagW, HeaderW) against the symbolic
aggregation the implementation performs (SymbolicEqualsDeclared, SolverOnLayout), alignment / byte padding / sealed
extent / delimited-set invariants over the universe; boundary widths by bit length.
Binding A: every TLC state is materialised as DSDL (nested composites as their own files), read with read_namespace
and the real type's bit_length_set, alignment_requirement, extent, prefix / tag / header widths compared with `out`.
"""
from __future__ import annotations
from .. import core, tlc, tlaval, dsdlio, dsdlgen

def observe_layout(dt, W):
    import pydsdl
    o = {"bls": frozenset(dt.bit_length_set), "min": dt.bit_length_set.min, "max": dt.bit_length_set.max,
         "align": dt.alignment_requirement, "extent": 0, "prefix": 0, "tag": 0, "header": 0,
         "wrapper": frozenset(W.bit_length_set)}
    if isinstance(dt, pydsdl.CompositeType):
        o["extent"] = dt.extent
        inner = dt.inner_type
        if isinstance(inner, pydsdl.UnionType):
            o["tag"] = inner.tag_field_type.bit_length
        if isinstance(dt, pydsdl.DelimitedType):
            o["header"] = dt.delimiter_header_type.bit_length
    if isinstance(dt, pydsdl.VariableLengthArrayType):
        o["prefix"] = dt.length_field_type.bit_length
    return o

@core.safe
def worker(arg):
    block, seed = arg
    st = tlaval.parse_state_block(block)
    if st["ph"] == 0:
        return None
    t, out = st["case"], st["out"]
    g = dsdlgen.Gen(seed + hash(block) % 1000)
    dsdlgen.wrap_field(g, t)
    diff = []
    with dsdlio.Tree(g.files, "c02") as tr:
        status, res, _ = dsdlio.read_ns(tr.path("ns"))
        if status != "ok":
            diff.append(("rejected", dsdlio.err_info(res)))
        else:
            W = [x for x in res if x.full_name == "ns.W"][0]
            dt = W.fields[0].data_type
            try:
                o = observe_layout(dt, W)
                exp = {"bls": out["bls"], "min": min(out["bls"]), "max": max(out["bls"]), "align": out["align"],
                       "extent": out["extent"], "prefix": out["prefix"], "tag": out["tag"], "header": out["header"],
                       "wrapper": out["wrapper"]}
                for k in exp:
                    if o[k] != exp[k]:
                        diff.append((k, sorted(o[k]) if isinstance(o[k], frozenset) else o[k],
                                     sorted(exp[k]) if isinstance(exp[k], frozenset) else exp[k]))
                if any(x % dt.alignment_requirement for x in o["bls"]):
                    diff.append(("length not a multiple of the alignment", sorted(o["bls"]), dt.alignment_requirement))
            except Exception as ex:
                diff.append(("exception", type(ex).__name__, str(ex)[:200]))
    r = {"nt": t["k"] not in ("bool", "u", "i", "f", "void"), "key": core.jhash(tlaval.to_json(t))}
    if diff:
        r["bad"] = {"kind": "layout", "case": tlaval.to_json(t), "files": g.files, "diff": diff,
                    "expected": tlaval.to_json(out)}
    return r

@core.safe
def session_worker(arg):
    """Layout_sessions.cfg: two wrapped twins read in one process, in the given order."""
    block, seed = arg
    st = tlaval.parse_state_block(block)
    if st["ph"] != 2:
        return None
    c, out = st["case"], st["out"]
    g = dsdlgen.Gen(seed + hash(block) % 1000)
    order = [("wa", "la"), ("wb", "lb")] if c["first"] == "a" else [("wb", "lb"), ("wa", "la")]
    for n, (w, _l) in enumerate(order):
        t = c[w]
        g.files["ns/W%d.1.0.dsdl" % (n + 1)] = "%s x\n@sealed\n" % g.expr(t)
    diff = []
    with dsdlio.Tree(g.files, "c02s") as tr:
        status, res, _ = dsdlio.read_ns(tr.path("ns"))
        if status != "ok":
            diff.append(("rejected", dsdlio.err_info(res)))
        else:
            for n, (w, l) in enumerate(order):
                W = [x for x in res if x.full_name == "ns.W%d" % (n + 1)][0]
                dt = W.fields[0].data_type
                o = observe_layout(dt, W)
                exp = out[l]
                for k in ("bls", "align", "extent", "prefix", "tag", "header", "wrapper"):
                    if o[k] != exp[k]:
                        diff.append(("%s of the type read %s" % (k, "first" if n == 0 else "second"),
                                     sorted(o[k]) if isinstance(o[k], frozenset) else o[k],
                                     sorted(exp[k]) if isinstance(exp[k], frozenset) else exp[k]))
    r = {"nt": True, "key": core.jhash(tlaval.to_json(c))}
    if diff:
        r["bad"] = {"kind": "layout-session", "case": tlaval.to_json(c), "files": g.files, "diff": diff[:6]}
    return r

@core.safe
def boundary_worker(arg):
    import pydsdl
    c, out, tier = arg
    b, hi, kind, extra = c["b"], c["hi"], c["kind"], c["extra"]
    diff = []
    skipped = False
    if kind == "cap":
        cap = (2 ** b - 1) if hi else 2 ** (b - 1)
        for elem, ebits in (("uint8", 8), ("bool", 1), ("uint13", 13)):
            with dsdlio.Tree({"ns/W.1.0.dsdl": "%s[<=%d] x\n@sealed\n" % (elem, cap)}, "c02b") as tr:
                status, res, _ = dsdlio.read_ns(tr.path("ns"))
                if status != "ok":
                    diff.append(("rejected", elem, cap, dsdlio.err_info(res)))
                    continue
                dt = res[0].fields[0].data_type
                w = dt.length_field_type.bit_length
                if w != out:
                    diff.append(("prefix width", elem, str(cap), w, out))
                if dt.bit_length_set.min != out or dt.bit_length_set.max != out + cap * ebits:
                    diff.append(("min/max", elem, str(cap), str(dt.bit_length_set.min), str(dt.bit_length_set.max)))
                pad = -(out + cap * ebits) % 8
                if res[0].extent != out + cap * ebits + pad:
                    diff.append(("wrapper extent", elem, str(cap), str(res[0].extent)))
    else:
        nv = 2 ** b if hi else 2 ** (b - 1) + 1
        limit = 9 if tier == "quick" else 13
        if b > limit:
            skipped = True
        else:
            u8 = pydsdl.UnsignedIntegerType(8, pydsdl.PrimitiveType.CastMode.SATURATED)
            attrs = [pydsdl.Field(u8, "f%d" % i) for i in range(nv)]
            attrs += [pydsdl.Constant(u8, "C%d" % i, pydsdl._expression.Rational(1)) for i in range(extra)]
            from pathlib import Path
            try:
                # the attributes arrive as a list, a tuple or a one-shot iterable (the parameter is an Iterable)
                form = attrs if (nv + extra) % 3 == 0 else tuple(attrs) if (nv + extra) % 3 == 1 else (a_ for a_ in attrs)
                un = pydsdl.UnionType(name="ns.U", version=pydsdl.Version(1, 0), attributes=form, deprecated=False,
                                      fixed_port_id=None, source_file_path=Path("/nonexistent/ns/U.1.0.dsdl"),
                                      has_parent_service=False)
                w = un.tag_field_type.bit_length
                if w != out:
                    diff.append(("tag width", nv, extra, w, out))
                if (un.bit_length_set.min, un.bit_length_set.max, un.extent) != (out + 8, out + 8, out + 8):
                    diff.append(("union bls", nv, extra, un.bit_length_set.min, un.bit_length_set.max, un.extent))
                offs = {frozenset(o) for _, o in un.iterate_fields_with_offsets()}
                if offs != {frozenset({out})}:
                    diff.append(("variant offsets", nv, extra, [sorted(x) for x in offs][:3], out))
            except Exception as ex:
                diff.append(("exception", type(ex).__name__, str(ex)[:200]))
    r = {"nt": True, "key": core.jhash(tlaval.to_json(c)), "skipped": skipped}
    if diff:
        r["bad"] = {"kind": "boundary", "case": tlaval.to_json(c), "diff": diff, "expected": out}
    return r

@core.safe
def service_parts_worker(arg):
    """The request and the response part of a service are laid out independently: constants of one name with other values in the
    two parts give the array capacities (hence prefix widths, lengths, extents) of their own part.  Closed forms."""
    import pydsdl
    creq, cresp, first_use = arg
    def part(cap, use):
        return "uint32 CAP = %d\n%suint8[<=CAP] data\nuint8[CAP] fixed\n@sealed\n" % (cap, "uint8[<=CAP + 0] early\n" if use else "")
    text = part(creq, first_use) + "---\n" + part(cresp, not first_use)
    diff = []
    with dsdlio.Tree({"ns/S.1.0.dsdl": text}, "c02s") as tr:
        status, res, _ = dsdlio.read_ns(tr.path("ns"))
    if status != "ok":
        return {"nt": True, "key": core.jhash(list(arg)), "bad": {"kind": "service-parts", "case": list(arg), "diff": [("rejected", dsdlio.err_info(res))]}}
    for name, t, cap, use in (("request", res[0].request_type, creq, first_use), ("response", res[0].response_type, cresp, not first_use)):
        pw = 8 if cap <= 255 else 16 if cap <= 65535 else 32
        var = [f for f in t.fields if f.name in ("data", "early")]
        fixed = [f for f in t.fields if f.name == "fixed"][0]
        got = ([(f.data_type.capacity, f.data_type.length_field_type.bit_length) for f in var], fixed.data_type.capacity,
               t.bit_length_set.min, t.bit_length_set.max, t.extent)
        n = len(var)
        exp = ([(cap, pw)] * n, cap, n * pw + cap * 8, n * (pw + cap * 8) + cap * 8, n * (pw + cap * 8) + cap * 8)
        if got != exp:
            diff.append((name, got, exp))
    r = {"nt": True, "key": core.jhash(list(arg))}
    if diff:
        r["bad"] = {"kind": "service-parts", "case": {"request_cap": creq, "response_cap": cresp, "early_use_in_request": first_use}, "diff": diff}
    return r

def consume(ctx, results, tag):
    for r in results:
        if r is None:
            continue
        if "harness_exception" in r:
            lf = core.library_failure(r)
            if lf is not None:
                ctx.violation(lf)
                continue
            raise tlc.MachineryError("replay worker failed: %s\n%s" % (r["harness_exception"], r["tb"]))
        if r.get("skipped"):
            ctx.extra["skipped"] = ctx.extra.get("skipped", 0) + 1
            continue
        ctx.count()
        ctx.traces += 1
        if r["nt"]:
            ctx.nontriv(tag + r["key"])
        if "bad" in r:
            ctx.violation(r["bad"])

def run_cfg(ctx, module, cfg, worker_fn, tag, mk=None, shuffle=False):
    res = tlc.run(module, cfg, dump=True, tag=tag, timeout=3000)
    ctx.add_tlc(res, cfg)
    if res.violated:
        ctx.spec_violation(res, cfg)
        tlc.cleanup(res)
        return
    blocks = tlaval.split_dump_blocks(res.dump_path)
    tlc.cleanup(res)
    items = [(b, ctx.seed) for b in blocks] if mk is None else mk(blocks)
    if shuffle:      # cases meet in a worker process in a seeded random order (state carried from one case to the next)
        import random
        random.Random(ctx.seed * 977 + len(items)).shuffle(items)
    consume(ctx, core.pmap(worker_fn, items, chunksize=100), tag)

def run(ctx):
    ctx.rule = ("TLC enumerates type records: every primitive width 1..64 / cast mode in flat shapes (arrays of capacity "
                "1-3, structures and unions with sibling fields incl. sub-byte, composite and variable-length siblings, "
                "sealed and delimited with extents max/+8/+24) and small widths nested up to Growth levels; capacities and "
                "variant counts at every bit length 1..64 (both ends) for the prefix / tag boundaries, unions also with "
                "constants. Each is materialised as DSDL, read, and bit_length_set / alignment / extent / prefix / tag / "
                "header compared with the specification. Sessions: every pair of element types whose sets differ but agree in min / "
                "max / residues modulo 32, wrapped in seven ways each, both read in one process in either order. Non-trivial = non-primitive type; distinct by hash of the record")
    ctx.assumptions = ["TLC's evaluation of the specification", "union tag boundaries above 2**9 (quick) / 2**13 (thorough) "
                       "variants are not instantiated (counted as skipped); 2**16 and 2**32 variant boundaries are decided "
                       "on the specification only"]
    deep = "Layout_deep_quick.cfg" if ctx.tier == "quick" else "Layout_deep_thorough.cfg"
    run_cfg(ctx, "Layout", "Layout_flat.cfg", worker, "flat")
    # (three nesting steps give 1.5 * 10^6 types; every other one is materialised in the thorough tier)
    run_cfg(ctx, "Layout", deep, worker, "deep", mk=lambda blocks: [(b, ctx.seed) for b in blocks if ctx.tier == "quick" or core.sampled(b, 2)])
    if ctx.tier != "quick":
        ctx.exhaustive = False
    def mk(blocks):
        out = []
        for b in blocks:
            st = tlaval.parse_state_block(b)
            if st["ph"] == 1:
                out.append((dict(st["case"]), st["out"], ctx.tier))
        return out
    run_cfg(ctx, "Layout", "Layout_boundary.cfg", boundary_worker, "bnd", mk)
    run_cfg(ctx, "Layout", "Layout_sessions.cfg", session_worker, "sess")
    parts = [(a, b, u) for a in (1, 2, 100, 255, 256, 300) for b in (1, 2, 100, 255, 256, 300, 65535, 65536) if a != b for u in (True, False)]
    consume(ctx, core.pmap(service_parts_worker, parts, chunksize=4), "service-parts")
    ctx.sample({"type": {"k": "st", "f": [{"k": "var", "e": {"k": "u", "n": 12, "m": "s"}, "c": 2},
                                         {"k": "st", "f": [{"k": "u", "n": 8, "m": "s"}]}, {"k": "u", "n": 4, "m": "s"}]},
                "expected_bls": [24, 40, 48]})

def replay(ctx, rec):
    print("replay: re-run ./check %s --tier %s --seed %s (cases are enumerated exhaustively)" % (ctx.pid, rec.get("tier"), rec.get("seed")))
    return 0
