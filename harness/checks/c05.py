"""C05 - a definition is accepted if and only if it obeys the static rules of DSDL.

TLC: Rules.tla - Valid = conjunction of the named rule predicates (width, capacity, void, utf8, byte, names, unique,
union, deprecation, mode, directive, version, port) over every definition reachable from the valid skeleton by up to
MaxDev deviations (boundary values of every numeric rule included); Statements.tla covers directive placement in depth.
Binding A: each abstract definition is materialised (file name carries version and port-ID, directories carry namespace
components, a deprecated / plain dependency is added when needed) and read with read_namespace; accepted vs rejected is
compared with Valid and every rejection must be an InvalidDefinitionError.
"""
from __future__ import annotations
from .. import core, tlc, tlaval, dsdlio
from . import c02

# name tokens the specification cannot hold as text
TOKENS = {"UNI_LETTER": "Gr\u00f6\u00dfe", "UNI_DIGIT": "T\u0663", "UNI_MARK": "sube\u0301"}
def tok(t: str) -> str:
    return TOKENS.get(t, t)

def cap_text(cap: int) -> str:
    return {-1: "5/2", -2: "-2"}.get(cap, str(cap))

def type_text(ft):
    base = ft["base"]
    if base in ("uint", "int", "float", "void"):
        s = "%s%d" % (base, ft["n"])
    else:
        s = base
    if ft["cast"]:
        s = ft["cast"] + " " + s
    if ft["arr"] == "fix":
        s += "[%s]" % cap_text(ft["cap"])
    elif ft["arr"] == "le":
        s += "[<=%s]" % cap_text(ft["cap"])
    elif ft["arr"] == "lt":
        s += "[<%s]" % cap_text(ft["cap"])
    return s

def build(c, extent_bits=None):
    """-> (files, root dir name, allow flag). extent_bits: value for the relative @extent modes."""
    root = "uavcan" if c["port"]["root"] == "standard" else "vnd"
    lines = []
    d = c["dir"]
    if c["dep"] in ("dep_uses_dep", "both_dep_use_dep") or d == "deprtwice":
        lines.append("@deprecated")
    if d == "deprtwice":
        lines.append("@deprecated")
    union = c["kind"] != "struct"
    if union:
        lines.append("@union")
    if d == "uniontwice":
        lines += ["@union", "@union"] if not union else ["@union"]
    if c["mode"] == "extfirst":
        lines.append("@extent 1024")
    ft = c["ft"]
    first = type_text(ft) if ft["base"] == "void" and ft["arr"] == "none" else "%s %s" % (type_text(ft), tok(c["name"]["t"]))
    lines.append(first)
    if d == "unionlate":
        lines.append("@union")
    if d == "deprlate":
        lines.append("@deprecated")
    if c["kind"] in ("union2", "unionpad", "union3"):
        lines.append("uint16 other")
    if c["kind"] == "union3":
        lines.append("bool third")
    if c["kind"] == "unionpad":
        lines.append("void8")
    if c["kind"] == "unionconst1":
        lines.append("uint8 ONLY_CONST = 1")
    if c["dep"] in ("uses_dep", "dep_uses_dep", "uses_nondep", "both_use_dep", "both_dep_use_dep"):
        lines.append("%s.Dep.1.0 depfield" % root)
    elif c["dep"] == "uses_dep_array":
        lines.append("%s.Dep.1.0[<=2] depfield" % root)
    if c["dup"] == "fieldfield":
        lines += ["uint8 dd", "uint8 dd"]
    elif c["dup"] == "fieldconst":
        lines += ["uint8 dd", "uint8 dd = 1"]
    elif c["dup"] == "constconst":
        lines += ["uint8 dd = 1", "uint8 dd = 2"]
    elif c["dup"] == "caseonly":
        lines += ["uint8 dd", "uint8 DD"]
    if d == "unknown":
        lines.append("@frobnicate")
    elif d == "assertnoexpr":
        lines.append("@assert")
    elif d == "assertnonbool":
        lines.append("@assert 1")
    m = c["mode"]
    if d == "sealedexpr":
        lines.append("@sealed 8")
    elif d == "extnoexpr":
        lines.append("@extent")
    elif m in ("sealed", "extfirst"):
        if m == "sealed":
            lines.append("@sealed")
    elif m == "both":
        lines += ["@sealed", "@extent 1024"]
    elif m == "sealedtwice":
        lines += ["@sealed", "@sealed"]
    elif m == "none":
        pass
    elif m == "extthenconst":
        lines += ["@extent 1024", "uint8 LATE = 1"]
    elif m == "sealedthenconst":
        lines += ["@sealed", "uint8 LATE = 1"]
    elif m in ("exthalf", "extneg", "extstr", "extbool", "extset"):
        eb = extent_bits if extent_bits is not None else 1024
        lines.append("@extent " + {"exthalf": "%d + 1/2" % (eb + 8), "extneg": "-8", "extstr": "'64'", "extbool": "true", "extset": "{%d}" % (eb + 8)}[m])
    else:
        eb = extent_bits if extent_bits is not None else 1024
        delta = {"ext0": 0, "extplus8": 8, "extminus8": -8, "extplus3": 3, "extexpr": 16}[m]
        if m == "extexpr":
            lines.append("@extent %d * 8" % ((eb + delta) // 8))
        else:
            lines.append("@extent %d" % (eb + delta))
    if c["port"]["svc"]:
        lines += ["---", "uint8 response_field", "@sealed"]
    p = c["port"]
    fname = "%s%s.%d.%d.dsdl" % (("%d." % p["id"]) if p["has"] else "", tok(c["tname"]["t"]), c["ver"][0], c["ver"][1])
    files = {"%s/%s/%s" % (root, tok(c["nsname"]["t"]), fname): "\n".join(lines) + "\n"}
    if c["dep"] != "none":
        files["%s/Dep.1.0.dsdl" % root] = ("" if c["dep"] == "uses_nondep" else "@deprecated\n") + "@sealed\n"
    if c["dep"] in ("both_use_dep", "both_dep_use_dep"):
        # a deprecated sibling that sorts (and is read) before the definition under test uses the same deprecated type
        files["%s/AaaFirst.1.0.dsdl" % root] = "@deprecated\n%s.Dep.1.0 depfield\n@sealed\n" % root
    return files, root, bool(p["allow"])

def _sealed_variant(c):
    c2 = dict(c)
    c2["mode"] = "sealed"
    return c2

@core.safe
def worker(arg):
    import pydsdl
    block, seed, mod = arg
    if not core.sampled(block, mod):
        return None
    st = tlaval.parse_state_block(block)
    c, out = dict(st["case"]), st["out"]
    diff = []
    extent_bits = None
    if c["mode"] in ("ext0", "extplus8", "extminus8", "extplus3", "extexpr", "exthalf", "extset"):
        # the longest representation: read the same definition sealed (C02 decides extents independently)
        c2 = _sealed_variant(c)
        c2["dir"] = "none"
        files, root, allow = build(c2)
        with dsdlio.Tree(files, "c05s") as tr:
            status, res, _ = dsdlio.read_ns(tr.path(root), allow_unregulated=allow)
        if status == "ok":
            t = [x for x in res if x.short_name == tok(c["tname"]["t"])][0]
            tt = t.request_type if isinstance(t, pydsdl.ServiceType) else t
            extent_bits = tt.extent
        else:
            extent_bits = 1024      # the definition is invalid for another reason anyway
    files, root, allow = build(c, extent_bits)
    with dsdlio.Tree(files, "c05") as tr:
        status, res, _ = dsdlio.read_ns(tr.path(root), allow_unregulated=allow)
    if status == "err":
        if not isinstance(res, pydsdl.InvalidDefinitionError):
            diff.append(("rejection is not an InvalidDefinitionError", type(res).__name__, str(res)[:200]))
        elif out["valid"]:
            diff.append(("valid definition rejected", type(res).__name__, str(res)[-200:]))
    elif not out["valid"]:
        diff.append(("definition violating %s accepted" % sorted(out["failing"]),))
    r = {"nt": True, "key": core.jhash(tlaval.to_json(c))}
    if diff:
        r["bad"] = {"kind": "rules", "case": tlaval.to_json(c), "files": files, "diff": diff, "failing": sorted(out["failing"])}
    return r

@core.safe
def dep_port_worker(arg):
    """A definition with a fixed port-ID outside the regulated range, reached first as a dependency of a target that sorts
    before it (or only afterwards), through a field / an array / a constant reference: rejected unless explicitly allowed."""
    import pydsdl
    referrer, how, port, api = arg
    ref = {"field": "vnd.B.1.0 b\n", "array": "vnd.B.1.0[<=2] b\n", "const": "uint8 X = vnd.B.1.0.K\n", "none": ""}[how]
    fs = {"vnd/%s.1.0.dsdl" % referrer: ref + "@sealed\n", "vnd/%d.B.1.0.dsdl" % port: "uint8 K = 1\n@sealed\n"}
    diff = []
    regulated = 6144 <= port <= 7167          # the vendor-specific regulated subject-IDs of a non-standard root namespace
    with dsdlio.Tree(fs, "c05p") as tr:
        for allow in (False, True):
            try:
                if api == "namespace":
                    pydsdl.read_namespace(tr.path("vnd"), allow_unregulated_fixed_port_id=allow)
                else:
                    pydsdl.read_files([tr.path(k) for k in sorted(fs)], [tr.path("vnd")], allow_unregulated_fixed_port_id=allow)
                ok = True
            except pydsdl.InvalidDefinitionError:
                ok = False
            if ok != (allow or regulated):
                diff.append(("allow_unregulated_fixed_port_id=%s" % allow, "accepted" if ok else "rejected"))
    r = {"nt": True, "key": core.jhash(list(arg))}
    if diff:
        r["bad"] = {"kind": "dep-port", "case": {"referrer": referrer, "how": how, "port": port, "api": api}, "diff": diff}
    return r

@core.safe
def ctor_rules_worker(arg):
    """The rules that the model classes enforce themselves hold however the attributes are handed to the public constructors."""
    import pydsdl
    from pathlib import Path
    rule, form = arg
    u8 = pydsdl.UnsignedIntegerType(8, pydsdl.PrimitiveType.CastMode.SATURATED)
    F, C, P = pydsdl.Field, pydsdl.Constant, pydsdl.PaddingField
    one = pydsdl._expression.Rational(1)
    cases = {   # rule -> (class, attributes, must be accepted)
        "ok-struct": (pydsdl.StructureType, [F(u8, "a"), P(pydsdl.VoidType(8)), C(u8, "K", one), F(u8, "b")], True),
        "ok-union": (pydsdl.UnionType, [F(u8, "a"), C(u8, "K", one), F(u8, "b")], True),
        "dup-field": (pydsdl.StructureType, [F(u8, "a"), F(u8, "b"), F(u8, "a")], False),
        "dup-field-const": (pydsdl.StructureType, [F(u8, "a"), C(u8, "a", one)], False),
        "dup-union": (pydsdl.UnionType, [F(u8, "a"), F(u8, "b"), F(u8, "b")], False),
        "union-one-variant": (pydsdl.UnionType, [F(u8, "a"), C(u8, "K", one)], False),
        "union-padding": (pydsdl.UnionType, [F(u8, "a"), P(pydsdl.VoidType(8)), F(u8, "b")], False),
    }
    cls, attrs, good = cases[rule]
    seq = attrs if form == "list" else tuple(attrs) if form == "tuple" else (x for x in attrs) if form == "generator" else \
        iter(attrs) if form == "iter" else map(lambda x: x, attrs)
    diff = []
    try:
        t = cls(name="ns.T", version=pydsdl.Version(1, 0), attributes=seq, deprecated=False, fixed_port_id=None,
                source_file_path=Path("/nonexistent/ns/T.1.0.dsdl"), has_parent_service=False)
        if not good:
            diff.append(("accepted", rule, form))
        elif [a.name for a in t.attributes] != [a.name for a in attrs] or len(t.fields) != sum(isinstance(a, F) for a in attrs):
            diff.append(("attributes of the accepted model", [a.name for a in t.attributes], [f.name for f in t.fields]))
    except pydsdl.InvalidDefinitionError as ex:
        if good:
            diff.append(("rejected", rule, form, str(ex)[:100]))
    except Exception as ex:      # noqa
        diff.append(("exception other than InvalidDefinitionError", type(ex).__name__, str(ex)[:100]))
    r = {"nt": True, "key": "ctor-%s-%s" % (rule, form)}
    if diff:
        r["bad"] = {"kind": "ctor-rules", "case": {"rule": rule, "form": form}, "diff": diff}
    return r

def run(ctx):
    ctx.rule = ("TLC enumerates every definition obtained from the valid skeleton by <= 2 (quick) / 3 (thorough, sampled) "
                "deviations over 11 dimensions: first field type (67: widths 1/2/64/65, cast modes, float sizes, void, utf8, "
                "byte, arrays with capacities 0/1/2 and the non-natural capacities 5/2 and -2 in the three bracket forms), attribute / "
                "type / namespace names (63 legal, reserved, non-ASCII (letter, digit, combining mark), digit-first and dashed "
                "tokens in mixed case), duplicates, structure / union shapes, serialization mode (17 incl. "
                "extent = longest -8 / +0 / +8 / +3 / +8.5, negative, string, boolean, set), deprecation, versions (7), port-IDs at every range boundary x root "
                "class x allow flag x message / service (58), directive misuse (10). Each is materialised and read; accepted "
                "iff Valid, rejections are InvalidDefinitionError. Every case is non-trivial; distinct by hash")
    ctx.assumptions = ["TLC's evaluation of the specification", "the legality of name tokens is a table transcribed from the "
                       "Specification's reserved words and patterns", "the longest representation used for relative extents is "
                       "taken from the sealed variant of the same definition"]
    quick = ctx.tier == "quick"
    c02.run_cfg(ctx, "Rules", "Rules_quick.cfg" if quick else "Rules_thorough.cfg", worker, "rules",
                mk=lambda blocks: [(b, ctx.seed, 1 if quick else 25) for b in blocks], shuffle=True)
    if not quick:
        ctx.exhaustive = False
    deps = [(r_, h, p_, a) for r_ in ("A", "Z") for h in ("field", "array", "const", "none") for p_ in (100, 6143, 6144, 7167, 7168)
            for a in ("namespace", "files")]
    c02.consume(ctx, core.pmap(dep_port_worker, deps, chunksize=4), "dep-port")
    ctors = [(r_, f) for r_ in ("ok-struct", "ok-union", "dup-field", "dup-field-const", "dup-union", "union-one-variant", "union-padding")
             for f in ("list", "tuple", "generator", "iter", "map")]
    c02.consume(ctx, core.pmap(ctor_rules_worker, ctors, chunksize=4), "ctor-rules")
    ctx.sample({"deviations": {"ft": "int1", "port": "vendor message 7168 not allowed"}, "expected": "rejected (width, port)"})

def replay(ctx, rec):
    print("replay: re-run ./check %s --tier %s --seed %s (cases are enumerated by TLC)" % (ctx.pid, rec.get("tier"), rec.get("seed")))
    return 0
