"""C03 - the model mirrors the source text, independent of formatting.

TLC: Statements.tla - the lazily committing statement-stream machine against the declarative mirror (NoLossNoDup,
DocAttached, HeaderMirror, FlagsMirror, NeutralInsert, FinalNewline) for every line sequence over the alphabet.
Binding B: the parser / builder steps recorded while the repository's own tests read their definitions are validated
by TLC against the step-level machine (TraceStatements.tla).
Binding A: every TLC state is rendered as DSDL text in several formatting variants, read with read_namespace,
projected and compared with `out`; accepted models are rendered back to canonical DSDL and re-read.
"""
from __future__ import annotations
from .. import stmt_replay, tlaval, stmttrace

def run(ctx):
    ctx.rule = ("TLC enumerates every sequence of abstract lines (kind x comment flag) up to MaxLines over the mirror, scope (constants named alike in the request and response part, read by later constants and @print; up to 7 lines) and "
                "full alphabets - every way a text can end is a last line; each state is rendered in 2-3 formatting "
                "variants (LF/CRLF, blank runs, tabs, trailing blanks, literal spellings), read with pydsdl.read_namespace "
                "and compared with the specification's result (fields, paddings, constants in order with names, types, "
                "values, doc comments; union/deprecated/sealed/extent/service; or rejection with the error line); accepted "
                "models are rendered to canonical DSDL and re-read (==, hash, projection). Non-trivial = accepted with at "
                "least one attribute, or rejected with a line; distinct by hash of the line sequence")
    ctx.assumptions = ["doc comments are compared under formatting changes that add or remove no comment and no empty "
                       "line; a white-space-only line (unlike an empty line) does not end a doc comment - recorded as a note",
                       "TLC's evaluation of the specification"]
    ctx.note("a line consisting only of blanks does not terminate a doc comment whereas an empty line does "
             "(WhitespaceOnlyLineDoesNotFlush); the structure of the model is unaffected (BlankVsEmptyStructure)")
    if ctx.tier == "quick":
        plan = [("Stmt_mirror_quick.cfg", 2, True, 1), ("Stmt_all_quick.cfg", 2, True, 1), ("Stmt_scope_thorough.cfg", 2, True, 3)]
    else:
        plan = [("Stmt_mirror_thorough.cfg", 3, True, 1), ("Stmt_all_thorough.cfg", 3, True, 1), ("Stmt_scope_thorough.cfg", 3, True, 1)]
    for cfg, nv, rt, sm in plan:
        results = stmt_replay.run_config(ctx, cfg, nv, rt, sm)
        if results:
            for r in results:
                if r and r.get("nt") and r.get("ok") and "bad" not in r:
                    break
    # Binding B over executions not generated from the specification: the repository's own tests under the hooks
    stmttrace.validate_repo_suite(ctx)
    ctx.sample({"lines": [{"k": "field", "c": True}, {"k": "empty", "c": True}, {"k": "sealed", "c": False}],
                "rendered": stmt_replay.render([{"k": "field", "c": True}, {"k": "empty", "c": True},
                                                {"k": "sealed", "c": False}], ctx.seed, 1)})

def replay(ctx, rec):
    lines = [dict(l) for l in rec["case"]]
    out = _unjson(rec["expected"])
    bad = stmt_replay.run_case(lines, out, ctx.seed, [rec.get("variant", 0), 0], True)
    print("replay:", bad[:1])
    if bad:
        print("VIOLATION property=%s replay=<given>" % ctx.pid)
        return 1
    return 0

def _unjson(j):
    if isinstance(j, dict):
        return {k: _unjson(v) for k, v in j.items()}
    if isinstance(j, list):
        return tuple(_unjson(x) for x in j)
    return j
