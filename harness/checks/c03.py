"""C03 - the model mirrors the source text, independent of formatting.

TLC: Statements.tla - the lazily committing statement-stream machine against the declarative mirror (NoLossNoDup,
DocAttached, HeaderMirror, FlagsMirror, NeutralInsert, FinalNewline) for every line sequence over the alphabet.
Binding B: the parser / builder steps recorded while the repository's own tests read their definitions are validated
by TLC against the step-level machine (TraceStatements.tla); so are the steps of reading every (quick: every second) single
token mutation of Funnel.tla's three seed definitions - mostly rejected texts, with dependencies read in nested frames.
Binding A: every TLC state is rendered as DSDL text in several formatting variants, read with read_namespace,
projected and compared with `out`; accepted models are rendered back to canonical DSDL and re-read.
"""
from __future__ import annotations
from .. import stmt_replay, tlaval, stmttrace, core, tlc

@core.safe
def mutation_trace_worker(arg):
    """One token mutation of Funnel.tla's machine, read under the hooks: the statement events of the read (and of the reads of
    its dependencies nested in it)."""
    block, mod = arg
    if core.pick(block, "c03mt", mod) != 0:
        return None
    from . import c13
    from .. import funnel_seeds as fs, dsdlio
    st = tlaval.parse_state_block(block)
    if st["ph"] < 2:
        return None
    text = c13.join(c13.apply_ops(fs.SEEDS[st["case"]["seed"] - 1], st["case"]["ops"]))
    if c13.unbounded(text):
        return None
    files = dict(fs.DEP_FILES)
    files.update(fs.LOOKUP_FILES)
    files["ns/A.1.0.dsdl"] = text
    from pydsdl import _verif_trace
    with dsdlio.Tree(files, "c03mt") as tr:
        _verif_trace.drain()
        status, _res, _ = dsdlio.read_ns(tr.path("ns"), [tr.path("lk/dep2")])
        evs = [e for e in _verif_trace.drain() if e["ev"] in ("read_begin", "read_end", "stmt", "flush", "commit", "eol", "finalize")]
    return {"events": evs, "text": text, "status": status}

def validate_mutation_traces(ctx, mod):
    """Binding B over faulty texts: every single token mutation (sampled 1 in `mod`) of the three seed definitions is read
    under the hooks and each recorded parser / builder step is judged by TLC against TraceStatements.tla."""
    res = tlc.run("MC_Funnel", "Funnel_mut1.cfg", dump=True, tag="c03mt", timeout=3000)
    ctx.add_tlc(res, "Funnel_mut1.cfg")
    blocks = tlaval.split_dump_blocks(res.dump_path)
    tlc.cleanup(res)
    evs, texts, rejected = [], [], 0
    for r in core.pmap(mutation_trace_worker, [(b, mod) for b in blocks], chunksize=100):
        if not r:
            continue
        if "harness_exception" in r:
            raise tlc.MachineryError("mutation trace worker failed: %s" % r)
        # one entry of `texts` per read_begin (nested reads of dependencies carry the referrer's text)
        texts.extend([r["text"]] * sum(1 for e in r["events"] if e["ev"] == "read_begin"))
        evs.extend(r["events"])
        rejected += r["status"] == "err"
    ctx.extra["mutation_statement_trace"] = dict(stmttrace.validate_events(ctx, evs, "token mutations of the seed definitions", texts=texts),
                                                 rejected_reads=rejected)

def run(ctx):
    ctx.rule = ("TLC enumerates every sequence of abstract lines (kind x comment flag) up to MaxLines over the mirror, scope (constants named alike in the request and response part, read by later constants and @print; up to 7 lines) and "
                "full alphabets - every way a text can end is a last line; each state is rendered in 2-3 formatting "
                "variants (LF/CRLF, blank runs, tabs, trailing blanks, literal spellings), read with pydsdl.read_namespace "
                "and compared with the specification's result (fields, paddings, constants in order with names, types, "
                "values, doc comments; union/deprecated/sealed/extent/service; or rejection with the error line); accepted "
                "models are rendered to canonical DSDL and re-read (==, hash, projection). Non-trivial = accepted with at "
                "least one attribute, or rejected with a line; distinct by hash of the line sequence")
    ctx.assumptions = ["doc comments are compared under formatting changes that add or remove no comment and no empty "
                       "line; a white-space-only line (unlike an empty line) does not end a doc comment - recorded as a note",
                       "TLC's evaluation of the specification"]
    ctx.note("a line consisting only of blanks does not terminate a doc comment whereas an empty line does "
             "(WhitespaceOnlyLineDoesNotFlush); the structure of the model is unaffected (BlankVsEmptyStructure)")
    if ctx.tier == "quick":
        plan = [("Stmt_mirror_quick.cfg", 2, True, 1), ("Stmt_all_quick.cfg", 2, True, 1), ("Stmt_scope_thorough.cfg", 2, True, 3)]
    else:
        plan = [("Stmt_mirror_thorough.cfg", 3, True, 1), ("Stmt_all_thorough.cfg", 3, True, 1), ("Stmt_scope_thorough.cfg", 3, True, 1)]
    for cfg, nv, rt, sm in plan:
        results = stmt_replay.run_config(ctx, cfg, nv, rt, sm)
        if results:
            for r in results:
                if r and r.get("nt") and r.get("ok") and "bad" not in r:
                    break
    # Binding B over executions not generated from the specification: the repository's own tests under the hooks
    stmttrace.validate_repo_suite(ctx)
    validate_mutation_traces(ctx, 2 if ctx.tier == "quick" else 1)
    ctx.sample({"lines": [{"k": "field", "c": True}, {"k": "empty", "c": True}, {"k": "sealed", "c": False}],
                "rendered": stmt_replay.render([{"k": "field", "c": True}, {"k": "empty", "c": True},
                                                {"k": "sealed", "c": False}], ctx.seed, 1)})

def replay(ctx, rec):
    lines = [dict(l) for l in rec["case"]]
    out = _unjson(rec["expected"])
    bad = stmt_replay.run_case(lines, out, ctx.seed, [rec.get("variant", 0), 0], True)
    print("replay:", bad[:1])
    if bad:
        print("VIOLATION property=%s replay=<given>" % ctx.pid)
        return 1
    return 0

def _unjson(j):
    if isinstance(j, dict):
        return {k: _unjson(v) for k, v in j.items()}
    if isinstance(j, list):
        return tuple(_unjson(x) for x in j)
    return j
