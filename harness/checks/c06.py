"""C06 - serialize / deserialize round-trip and produce the Specification's wire encoding.

TLC: Wire.tla (Mode "values"): RoundTrip, LengthInBLS (encoder vs the independently written layout rules), WholeBytes,
DefaultsSameAsZeros, OffsetsAreStarts over (type, value) pairs.
Binding A: each state is materialised (real type from DSDL), serialize() compared byte for byte with the
specification's encoding, deserialize() with the canonical value; relaxed forms and omitted default fields must give the
same bytes; the length must be a member of the real type's bit_length_set.
"""
from __future__ import annotations
from .. import core, tlc, tlaval, dsdlio, wire_replay as wr
from . import c02

def _omit_defaults(t, v, py):
    """Drop top-level structure fields whose value is the default (encoded as zero / empty / first variant)."""
    inner = t["inner"] if t["k"] == "del" else t
    if inner["k"] != "st" or not isinstance(py, dict):
        return None
    out = dict(py)
    dropped = False
    for j, ft in enumerate(inner["f"]):
        if ft["k"] != "void" and v[j] == wr.default_of(ft):
            out.pop("f%d" % (j + 1), None)
            dropped = True
    return out if dropped else None

@core.safe
def worker(arg):
    import pydsdl
    block, seed = arg
    st = tlaval.parse_state_block(block)
    if st["ph"] != 100:
        return None
    c, out = st["case"], st["out"]
    t, v, hdr = c["ty"], c["val"], c["hdr"]
    diff = []
    try:
        rt = wr.real_type(t)
    except RuntimeError as ex:
        return {"nt": False, "key": "x", "bad": {"kind": "wire", "case": tlaval.to_json(c), "diff": [("type rejected", str(ex)[:300])]}}
    X = rt.obj
    exp_bytes = bytes(out["bytes"])
    try:
        py = wr.to_py(t, v)
        got = pydsdl.serialize(X, py, with_delimiter_header=hdr)
        if got != exp_bytes:
            diff.append(("serialize", got.hex(), exp_bytes.hex()))
        bls = X.bit_length_set if (hdr or not isinstance(X, pydsdl.DelimitedType)) else X.inner_type.bit_length_set
        if len(got) * 8 not in set(bls):
            diff.append(("length not in bit_length_set", len(got) * 8, sorted(bls)[:20]))
        from .c07 import carrier
        back = wr.from_py(t, pydsdl.deserialize(X, got if core.pick(block, "carrier", 3) else carrier(got, len(got) // 2), with_delimiter_header=hdr))
        if back != out["canon"]:
            diff.append(("deserialize(serialize(v))", tlaval.to_json(back), tlaval.to_json(out["canon"])))
        for relaxed in (1, 2):
            g2 = pydsdl.serialize(X, wr.to_py(t, v, relaxed), with_delimiter_header=hdr, relaxed=True)
            if g2 != exp_bytes:
                diff.append(("relaxed form %d" % relaxed, g2.hex(), exp_bytes.hex()))
        om = _omit_defaults(t, out["canon"], py)
        if om is not None:
            g3 = pydsdl.serialize(X, om, with_delimiter_header=hdr)
            if g3 != exp_bytes:
                diff.append(("omitted default fields", g3.hex(), exp_bytes.hex(), repr(om)))
    except Exception as ex:
        diff.append(("exception", type(ex).__name__, str(ex)[:200]))
    r = {"nt": len(exp_bytes) > 1, "key": core.jhash([tlaval.to_json(c)])}
    if diff:
        r["bad"] = {"kind": "wire", "case": tlaval.to_json(c), "files": rt.files, "diff": diff,
                    "expected": tlaval.to_json(out)}
    return r

# ---- widths beyond the enumerated universe (sampled; cast semantics in closed form) -----------------------------
@core.safe
def wide_worker(arg):
    import pydsdl
    n, signed, mode = arg
    diff = []
    ty = ("int%d" % n) if signed else (("truncated " if mode == "t" else "") + "uint%d" % n)
    from .. import dsdlio
    # the field starts at every bit offset 0..7 within a byte (a leading uintK head), so that every combination of start
    # offset and width modulo 8 occurs
    files = {"ns/X%d.1.0.dsdl" % k: ("uint%d head\n" % k if k else "") + "%s x\nuint3 tail\n@sealed\n" % ty for k in range(8)}
    with dsdlio.Tree(files, "wide") as tr:
        status, res, _ = dsdlio.read_ns(tr.path("ns"))
        if status != "ok":
            return {"nt": True, "key": "w%d%s%s" % (n, signed, mode),
                    "bad": {"kind": "wide", "case": [n, signed, mode], "diff": [("rejected", str(res)[:200])]}}
        lo, hi = (-(1 << (n - 1)), (1 << (n - 1)) - 1) if signed else (0, (1 << n) - 1)
        for X in res:
            k = int(X.short_name[1:])
            headv = (1 << k) - 1 if k else 0
            # integers, and floats with integral values inside and far outside the range (2.0**63, 1e19, 1e300 ...)
            fl = [float(x) for x in (0, 1, -1, 3, 2 ** 31, 2 ** 52) ] + [2.0 ** 63, -(2.0 ** 63), 2.0 ** 64, 1e19, -1e19, 2e19, 1e300, -1e300,
                                                                      float(2 ** 53), float(hi), float(lo)]
            for v in [lo - 1, lo, lo + 1, -1, 0, 1, hi - 1, hi, hi + 1, 2 * hi + 1, (1 << 70) + 5, -(1 << 70) - 5,
                      (0xA5A5A5A5A5A5A5A5A5 >> 3) & hi | (1 << (n - 1) if not signed else 0)] + fl:
                iv = int(v)                     # a float with an integral value denotes that integer
                if mode == "t":
                    cv = iv % (1 << n)
                    if signed and cv > hi:
                        cv -= 1 << n
                else:
                    cv = max(lo, min(hi, iv))
                raw = cv % (1 << n)
                word = headv | (raw << k) | (5 << (k + n))
                nbits = k + n + 3
                exp = word.to_bytes((nbits + 7) // 8, "little")
                obj = {"x": v, "tail": 5}
                want = {"x": cv, "tail": 5}
                if k:
                    obj["head"] = headv
                    want["head"] = headv
                try:
                    got = pydsdl.serialize(X, obj)
                    if got != exp:
                        diff.append(("serialize", k, v, got.hex(), exp.hex()))
                    back = pydsdl.deserialize(X, got)
                    if back != want:
                        diff.append(("round trip", k, v, repr(back), cv))
                except Exception as ex:
                    diff.append(("exception", k, v, type(ex).__name__, str(ex)[:100]))
    r = {"nt": True, "key": "w%d%s%s" % (n, signed, mode)}
    if diff:
        r["bad"] = {"kind": "wide", "case": [n, signed, mode], "diff": diff[:4]}
    return r

@core.safe
def float_worker(arg):
    """IEEE-754 conversion is not decided by the specification (floats are opaque there); this is a SAMPLED list: placement,
    byte order and the cast-mode rules of the statement (saturated: clamp to the largest finite value; truncated: overflow to
    infinity; NaN and infinities pass) are compared with struct.pack."""
    import math, struct
    import pydsdl
    n, mode = arg
    from .. import dsdlio
    fmt = {16: "<e", 32: "<f", 64: "<d"}[n]
    ufmt = {16: "<H", 32: "<I", 64: "<Q"}[n]
    maxf = {16: 65504.0, 32: 3.4028234663852886e38, 64: 1.7976931348623157e308}[n]
    tiny = {16: 5.960464477539063e-08, 32: 1e-45, 64: 5e-324}[n]
    diff = []
    ty = ("truncated " if mode == "t" else "") + "float%d" % n
    with dsdlio.Tree({"ns/X.1.0.dsdl": "uint3 a\n%s x\nbool b\n@sealed\n" % ty}, "c06f") as tr:
        status, res, _ = dsdlio.read_ns(tr.path("ns"))
        X = res[0]
    values = [0.0, -0.0, 1.0, -2.5, maxf, -maxf, tiny, -tiny, float("inf"), float("-inf"), float("nan"), 1e-300, 0.1, 1 / 3]
    if n < 64:
        values += [maxf * 2, -maxf * 2, maxf * 1.0001, 1e300]
    values += [10 ** 400, -(10 ** 400), 3, True]
    for v in values:
        try:
            fv = float(v)
        except OverflowError:
            fv = math.inf if v > 0 else -math.inf
        huge_int = isinstance(v, int) and not isinstance(v, bool) and abs(v) > 10 ** 308
        if mode == "s" and (huge_int or not (math.isnan(fv) or math.isinf(fv))):
            fv = max(-maxf, min(maxf, fv))      # saturated: finite values (and integers too large for a float) clamp to the largest finite value
        try:
            pat = struct.unpack(ufmt, struct.pack(fmt, fv))[0]
        except OverflowError:
            pat = struct.unpack(ufmt, struct.pack(fmt, math.copysign(math.inf, fv)))[0]
        word = 5 | (pat << 3) | (1 << (3 + n))
        exp = word.to_bytes((3 + n + 1 + 7) // 8, "little")
        try:
            got = pydsdl.serialize(X, {"a": 5, "x": v, "b": True})
            if got != exp:
                diff.append(("serialize", repr(v), got.hex(), exp.hex()))
            back = pydsdl.deserialize(X, got)
            bx = back["x"]
            want = struct.unpack(fmt, struct.pack(ufmt, pat))[0]
            if not ((math.isnan(bx) and math.isnan(want)) or (bx == want and math.copysign(1, bx) == math.copysign(1, want))) or back["a"] != 5 or back["b"] is not True:
                diff.append(("round trip", repr(v), repr(back), repr(want)))
        except Exception as ex:
            diff.append(("exception", repr(v), type(ex).__name__, str(ex)[:100]))
    r = {"nt": True, "key": "float%d%s" % (n, mode)}
    if diff:
        r["bad"] = {"kind": "float-sample", "case": [n, mode], "diff": diff[:5]}
    return r

# Types that one process may hold at the same time and that compare equal (same name, version and bit length set) although
# their encodings differ: the variants / fields come in another order.  Expected bytes by closed form.
TWIN_TYPES = {
    "U": ("@union\nuint8 a\nuint16 b\n@sealed\n", "@union\nuint16 b\nuint8 a\n@sealed\n"),
    "S": ("uint8 a\nuint16 b\n@sealed\n", "uint16 b\nuint8 a\n@sealed\n"),
    "D": ("@union\nuint8 a\nuint16 b\n@extent 64\n", "@union\nuint16 b\nuint8 a\n@extent 64\n"),
}

def _twin_expected(kind, rev, val, hdr):
    order = ["b", "a"] if rev else ["a", "b"]
    enc = {"a": lambda x: bytes([x]), "b": lambda x: x.to_bytes(2, "little")}
    if kind in ("U", "D"):
        (name, x), = val.items()
        body = bytes([order.index(name)]) + enc[name](x)
    else:
        body = b"".join(enc[n](val[n]) for n in order)
    return (len(body).to_bytes(4, "little") if hdr else b"") + body

@core.safe
def twin_order_worker(arg):
    """Both revisions are loaded into ONE process and used alternately, starting with either."""
    import pydsdl
    kind, first = arg
    texts = TWIN_TYPES[kind]
    diff = []
    types = []
    for n in (0, 1):
        with dsdlio.Tree({"vnd/T.0.1.dsdl": texts[n]}, "c06tw") as tr:
            status, res, _ = dsdlio.read_ns(tr.path("vnd"))
            if status != "ok":
                return {"harness_exception": "twin type rejected: %s" % (res,)}
            types.append(res[0])
    vals = [{"a": 5}, {"b": 0x1234}] if kind in ("U", "D") else [{"a": 5, "b": 0x1234}, {"a": 0, "b": 1}]
    seq = [first, 1 - first, first, 1 - first]
    for n in seq:
        for v in vals:
            hdr = kind == "D"
            try:
                got = pydsdl.serialize(types[n], v, with_delimiter_header=hdr)
                back = pydsdl.deserialize(types[n], got, with_delimiter_header=hdr)
            except Exception as ex:
                diff.append(("exception", n, v, type(ex).__name__, str(ex)[:100]))
                continue
            exp = _twin_expected(kind, n == 1, v, hdr)
            if got != exp:
                diff.append(("serialize with revision %d (used %s)" % (n, "first" if n == first else "second"), v, got.hex(), exp.hex()))
            if back != v:
                diff.append(("deserialize(serialize(v)) with revision %d" % n, v, back))
            # bytes written with the OTHER revision's layout are read by this revision's layout
            other = _twin_expected(kind, n != 1, v, hdr)
            try:
                pydsdl.deserialize(types[n], other, with_delimiter_header=hdr)
            except (pydsdl.SerDesError, ValueError):
                pass
    r = {"nt": True, "key": "twin-%s-%d" % (kind, first)}
    if diff:
        r["bad"] = {"kind": "wire-twins", "case": {"kind": kind, "first": first}, "diff": diff[:4]}
    return r

def run(ctx):
    ctx.rule = ("TLC enumerates (type, value, header flag): types grown from seven primitives by arrays, structures and "
                "unions with five sibling kinds (incl. composite, delimited, variable-length), sealed and delimited, to "
                "Growth levels; values: every value incl. out-of-range for the leading primitive, 2-3 values (incl. "
                "out-of-range) elsewhere, all array lengths, every variant. Each state: serialize() == specification bytes, "
                "deserialize() == canonical value, relaxed forms and omitted defaults give the same bytes, length in the "
                "real bit_length_set. Non-trivial = encoding longer than one byte; distinct by hash of the case. Integer "
                "widths 17..64 and all cast modes are sampled with closed-form expectations (not decided by TLC). Floats.tla: "
                "every binade of binary16 / binary32 x boundary fractions x j/8 ulp perturbations x sign x cast mode, beyond-range "
                "values, infinities, NaN: serialize() gives the round-to-nearest-even pattern (saturated: clamped, truncated: "
                "infinity), deserialize() of each pattern gives its exact value")
    ctx.assumptions = ["IEEE 754 conversion is decided by Floats.tla for binary16 (quick: boundary fractions of every binade, thorough: "
                       "every pattern) and binary32 (boundary fractions of every binade), each value perturbed by 0..7 eighths of an ulp; "
                       "binary64 (53-bit significands exceed TLC's integers; a Python float is a binary64 pattern) stays a sampled list "
                       "of 18-22 values against struct.pack",
                       "TLC's evaluation of the specification", "UTF-8 / byte arrays are not in the enumerated universe"]
    cfg = "Wire_values_quick.cfg" if ctx.tier == "quick" else "Wire_values_thorough.cfg"
    c02.run_cfg(ctx, "Wire", cfg, worker, "wire")
    if ctx.tier != "quick":      # three nesting steps (outermost step from a smaller set) with the lean value sets
        c02.run_cfg(ctx, "Wire", "Wire_values_deep.cfg", worker, "wiredeep")
    wide = [(n, s, m) for n in list(range(1, 65)) for (s, m) in ((False, "s"), (False, "t"), (True, "s")) if not (s and n < 2)]
    c02.consume(ctx, core.pmap(wide_worker, wide, chunksize=8), "wide")
    c02.consume(ctx, core.pmap(twin_order_worker, [(k, f) for k in sorted(TWIN_TYPES) for f in (0, 1)], procs=6, chunksize=1), "twins")
    c02.consume(ctx, core.pmap(float_worker, [(n, m) for n in (16, 32, 64) for m in ("s", "t")], procs=6, chunksize=1), "float")
    # IEEE 754 binary16 / binary32: decided by Floats.tla (every binade x boundary fractions x eighths of an ulp x sign x cast
    # mode; thorough: every binary16 pattern)
    from .. import float_replay
    c02.run_cfg(ctx, "Floats", "Floats_boundary.cfg" if ctx.tier == "quick" else "Floats_all16.cfg", float_replay.worker, "ieee",
                mk=lambda blocks: list(blocks))
    if ctx.tier != "quick":
        c02.run_cfg(ctx, "Floats", "Floats_boundary.cfg", float_replay.worker, "ieee32", mk=lambda blocks: list(blocks))
    ctx.sample({"type": "struct{ void3; delimited(extent 16){uint8} }", "value": [0, [7]], "bytes": "000100000007"})

def replay(ctx, rec):
    print("replay: re-run ./check %s --tier %s --seed %s (cases are enumerated exhaustively)" % (ctx.pid, rec.get("tier"), rec.get("seed")))
    return 0
