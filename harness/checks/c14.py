"""C14 - delimited (appendable) types evolve without breaking containers or the wire.

TLC: Evolve.tla - ContainerLayoutStable and CrossRead (forward and backward) for revisions D / D' (one field list a
prefix of the other, equal extent) nested as field, fixed / variable array element, union variant, inside another
delimited type and at the top level, over all values of the value sets.
Binding A: both revisions are materialised as ns.D.1.0 / ns.D.1.1 with containers CA / CB referring to them (all in one
process, one namespace); layout compared through the API; serialize() with one revision, deserialize() with the other,
compared with the specification's bytes and expected value.
"""
from __future__ import annotations
from .. import core, tlc, tlaval, dsdlio, dsdlgen, wire_replay as wr
from ..tlaval import Rec
from . import c02

def subst(c, T):
    k = c["k"]
    if k == "hole":
        return T
    if k in ("fix", "var"):
        return Rec({**c, "e": subst(c["e"], T)})
    if k in ("st", "un"):
        return Rec({**c, "f": tuple(subst(x, T) for x in c["f"])})
    if k == "del":
        return Rec({**c, "inner": subst(c["inner"], T)})
    return c

_SHAPES = {}
def shape_types(c):
    key = repr((c["ctx"], c["base"], c["extra"], c["x"]))
    got = _SHAPES.get(key)
    if got is not None:
        return got
    if len(_SHAPES) > 40:
        for v in _SHAPES.values():
            v["tree"].close()
        _SHAPES.clear()
    d_old = Rec({"k": "del", "inner": Rec({"k": "st", "f": tuple(c["base"])}), "x": c["x"]})
    d_new = Rec({"k": "del", "inner": Rec({"k": "st", "f": tuple(c["base"]) + tuple(c["extra"])}), "x": c["x"]})
    g = dsdlgen.Gen(hash(key) % 1000)
    g.composite(d_old, name="D", version="1.0")
    g.composite(d_new, name="D", version="1.1")
    c_old, c_new = subst(c["ctx"], d_old), subst(c["ctx"], d_new)
    top = c["ctx"]["k"] == "hole"
    if not top:
        g.composite(c_old, name="CA")
        g.composite(c_new, name="CB")
    tree = dsdlio.Tree(g.files, "c14")
    status, res, _ = dsdlio.read_ns(tree.path("ns"))
    if status != "ok":
        tree.close()
        raise RuntimeError("rejected: %s %s" % (dsdlio.err_info(res), g.files))
    by = {(x.full_name, x.version.minor): x for x in res}
    got = {"tree": tree, "files": g.files, "told": c_old, "tnew": c_new, "hdr": top,
           "old": by[("ns.D", 0)] if top else by[("ns.CA", 0)], "new": by[("ns.D", 1)] if top else by[("ns.CB", 0)]}
    _SHAPES[key] = got
    return got

def layout_diff(sh):
    import pydsdl
    a, b = sh["old"], sh["new"]
    diff = []
    if set(a.bit_length_set) != set(b.bit_length_set):
        diff.append(("container bit_length_set", sorted(a.bit_length_set), sorted(b.bit_length_set)))
    if a.extent != b.extent:
        diff.append(("container extent", a.extent, b.extent))
    if not sh["hdr"]:
        for base in ({0}, {8}, {3, 16}):
            oa = [(f.name, frozenset(o)) for f, o in a.iterate_fields_with_offsets(pydsdl.BitLengthSet(base))]
            ob = [(f.name, frozenset(o)) for f, o in b.iterate_fields_with_offsets(pydsdl.BitLengthSet(base))]
            if oa != ob:
                diff.append(("container offsets", sorted(base), str(oa)[:200], str(ob)[:200]))
    return diff

@core.safe
def worker(arg):
    import pydsdl
    block, seed = arg
    st = tlaval.parse_state_block(block)
    if st["ph"] == 0:
        return None
    c, out = st["case"], st["out"]
    try:
        sh = shape_types(c)
    except RuntimeError as ex:
        return {"nt": True, "key": "x", "bad": {"kind": "evolve", "case": tlaval.to_json(c), "diff": [("rejected", str(ex)[:400])]}}
    diff = []
    if st["ph"] == 1:
        diff = layout_diff(sh)
        r = {"nt": True, "key": core.jhash(tlaval.to_json(c))}
    else:
        fwd = c["dir"] == "fwd"
        W, R = (sh["new"], sh["old"]) if fwd else (sh["old"], sh["new"])
        tw, tr_ = (sh["tnew"], sh["told"]) if fwd else (sh["told"], sh["tnew"])
        try:
            b = pydsdl.serialize(W, wr.to_py(tw, c["val"]), with_delimiter_header=sh["hdr"])
            if b != bytes(out["bytes"]):
                diff.append(("bytes written", b.hex(), bytes(out["bytes"]).hex()))
            got = wr.from_py(tr_, pydsdl.deserialize(R, b, with_delimiter_header=sh["hdr"]))
            if got != out["expected"]:
                diff.append(("read with the other revision", tlaval.to_json(got), tlaval.to_json(out["expected"])))
            if sh["hdr"]:
                # framed records back to back: what follows the announced payload belongs to the next record, whatever the reader's
                # revision expects (fields unknown to the writer read as zero, not as the bytes behind the payload)
                for tail in (b"\xff" * 16, b"\x05\x00\x00\x00\x03\x07\x01\x02\x03", memoryview(b"\xaa" * 40)[3:20]):
                    got2 = wr.from_py(tr_, pydsdl.deserialize(R, bytes(b) + bytes(tail), with_delimiter_header=True))
                    if got2 != got:
                        diff.append(("read with the other revision from a buffer that continues behind the payload", tlaval.to_json(got2), tlaval.to_json(got)))
                        break
            # and the same revision still reads its own data
            own = wr.from_py(tw, pydsdl.deserialize(W, b, with_delimiter_header=sh["hdr"]))
            # (compared against C06's canon implicitly: it must re-serialise to the same bytes)
            if pydsdl.serialize(W, wr.to_py(tw, own), with_delimiter_header=sh["hdr"]) != b:
                diff.append(("same revision round trip", tlaval.to_json(own)))
        except Exception as ex:
            diff.append(("exception", type(ex).__name__, str(ex)[:200]))
        r = {"nt": True, "key": core.jhash(tlaval.to_json(c))}
    if diff:
        r["bad"] = {"kind": "evolve", "case": tlaval.to_json(c), "files": sh["files"], "diff": diff,
                    "expected": tlaval.to_json(out) if st["ph"] == 2 else None}
    return r

def run(ctx):
    ctx.rule = ("TLC enumerates container shapes (8: field, field between fields, fixed / variable array element followed by "
                "a field, union variant followed by a field, inside another delimited type, union top, the revision itself "
                "with its header) x base field lists (3) x appended field lists (3) x extent slack (0, 16) x direction "
                "(old reads new / new reads old) x every value of the value sets; each state: layout of both containers "
                "compared through the API, serialize() with the writer's revision == specification bytes, deserialize() "
                "with the reader's revision == expected value. Every case is non-trivial (two revisions differ by at "
                "least one field); distinct by hash of the case")
    ctx.assumptions = ["TLC's evaluation of the specification", "removing trailing fields is the same pair read in the other direction"]
    # Evolve_thorough.cfg (Rich = TRUE) makes TLC raise an evaluation error after the extras of the last rounds were added (found at the
    # very end of the session, not yet debugged): both tiers run the configuration that is known to be sound
    cfg = "Evolve_quick.cfg"
    c02.run_cfg(ctx, "Evolve", cfg, worker, "evolve")
    ctx.sample({"ctx": "struct{ D[<=2] a; bool b }", "D.1.0": "uint3 f1", "D.1.1": "uint3 f1; uint8 f2", "extent": 32,
                "direction": "new reads old"})

def replay(ctx, rec):
    print("replay: re-run ./check %s --tier %s --seed %s (cases are enumerated exhaustively)" % (ctx.pid, rec.get("tier"), rec.get("seed")))
    return 0
