"""C19 - definitions outside the dependency closure cannot influence the result.

TLC: Reader.tla - NoLoadOutsideClosure (no text outside Targets + Closure is ever parsed), OutsideIrrelevant (replacing
the body of a definition outside the closure leaves the whole outcome - types or error, prints - unchanged), for both
entry points and every distinguished body.
Binding A: every configuration that has a definition outside the closure is read once as is and once per replacement
text (garbage, failing assertion, missing @sealed, @print, a service where a message was, an undefined reference); the
projections must be identical.  Binding B: the text_load events of every run name only closure members (hooks).
"""
from __future__ import annotations
from .. import reader_replay as rr

def _focus(b):
    return b["kind"] != "print-path"      # the path of print events is C17's concern

def run(ctx):
    ctx.rule = ("TLC enumerates configurations (as C09/C10) for read_namespace and read_files with every target subset and "
                "every distinguished body; every configuration is materialised and read; for each definition outside the "
                "closure (in lookup directories, and for read_files also non-target files of the target root) the run is "
                "repeated with six replacement texts and the projection (types, links, or error class / path / line, print "
                "events) must not change. Non-trivial = configuration with at least two definitions and one reference")
    ctx.assumptions = ["TLC's evaluation of the specification", "malformed FILE NAMES in lookup directories may be reported "
                       "(inspected at listing time): not part of the replacements"]
    if ctx.tier == "quick":
        rr.run_cfg(ctx, "Reader_files2_bodies.cfg", "files", sample_mod=3, paired=True, focus=_focus)
        rr.run_cfg(ctx, "Reader_ns2_bodies.cfg", "namespace", sample_mod=3, paired=True, focus=_focus)
        rr.run_cfg(ctx, "Reader_files3_lean_two.cfg", "files", sample_mod=12, paired=True, focus=_focus)
        ctx.exhaustive = False
    else:
        rr.run_cfg(ctx, "Reader_files2_bodies.cfg", "files", paired=True, focus=_focus)
        rr.run_cfg(ctx, "Reader_ns2_bodies.cfg", "namespace", paired=True, focus=_focus)
        rr.run_cfg(ctx, "Reader_files3_lean.cfg", "files", sample_mod=4, paired=True, focus=_focus)
        ctx.exhaustive = False
    ctx.sample({"targets": ["d1/a/X.0.1"], "outside": "d1/a/Y.0.1 (same root, not a target, not referenced)",
                "replacements": ["garbage", "assertfail", "nomode", "print", "service", "badref"]})

def replay(ctx, rec):
    print("replay: re-run ./check %s --tier %s --seed %s (cases are enumerated by TLC)" % (ctx.pid, rec.get("tier"), rec.get("seed")))
    return 0
