"""C19 - definitions outside the dependency closure cannot influence the result.

TLC: Reader.tla - NoLoadOutsideClosure (no text outside Targets + Closure is ever parsed), OutsideIrrelevant (replacing
the body of a definition outside the closure leaves the whole outcome - types or error, prints - unchanged), for both
entry points and every distinguished body.
Binding A: every configuration that has a definition outside the closure is read once as is and once per replacement
text (garbage, failing assertion, missing @sealed, @print, a service where a message was, an undefined reference); the
projections must be identical.  Binding B: the text_load events of every run name only closure members (hooks).
"""
from __future__ import annotations
from .. import core, reader_replay as rr

def _focus(b):
    return b["kind"] != "print-path"      # the path of print events is C17's concern

def repo_suite_reader_trace(ctx):
    """The repository's own namespace tests, run with the hooks on, as a trace source for TraceReader.tla."""
    import json, os, re, subprocess, sys, tempfile
    from .. import core, tlc, tlaval, readertrace
    fd, path = tempfile.mkstemp(prefix="verif-trace-", suffix=".ndjson")
    os.close(fd)
    try:
        env = dict(os.environ, OPENCYPHAL_PYDSDL_VERIF="1", OPENCYPHAL_PYDSDL_VERIF_TRACE=path, PYTHONDONTWRITEBYTECODE="1",
                   PYTHONPATH=str(core.REPO))
        p = subprocess.run([sys.executable, "-m", "pytest", "-q", "-p", "no:cacheprovider", "pydsdl/_test.py", "pydsdl/_namespace.py",
                            "pydsdl/_namespace_reader.py", "pydsdl/_dsdl_definition.py"], cwd=str(core.REPO), env=env,
                           capture_output=True, text=True, timeout=1800)
        if p.returncode != 0:
            raise tlc.MachineryError("the repository's namespace tests failed under tracing: %s" % p.stdout[-500:])
        evs = [json.loads(l) for l in open(path)]
    finally:
        os.unlink(path)
    seq, files = readertrace.to_sequence(evs)
    wd = tlc.workdir("c19rt")
    rp = wd / "trace.ndjson"
    rp.write_text("\n".join(json.dumps(x) for x in seq) + "\n")
    res = tlc.run("TraceReader", "TraceReader.cfg", workers=1, env={"RECORDS": str(rp)}, tag="c19rt", timeout=1800)
    ctx.add_tlc(res, "TraceReader")
    m = re.search(r'<<\s*"VERDICT",\s*(\d+),\s*(\{[^}]*\})\s*>>', res.out)
    if not m or int(m.group(1)) != len(seq):
        raise tlc.MachineryError("no verdict from TraceReader: %s" % res.out[-800:])
    for b in sorted(tlaval.parse(m.group(2)))[:30]:
        what = files.get(b)
        ctx.violation({"kind": "reader-trace", "case": "repository namespace tests",
                       "diff": [("a definition was read inside another read without a reference having resolved to it", what)] if what
                                else [("reader step out of order (nesting / text load / resolve outside its definition)", seq[b - 1])]})
    tlc.cleanup(res)
    import shutil
    shutil.rmtree(wd, ignore_errors=True)
    ctx.traces += 1
    ctx.count(len(seq))
    ctx.extra["repository_reader_trace_events"] = len(seq)

@core.safe
def port_twin_worker(arg):
    """An unreferenced definition whose FILE NAME carries the port-ID of a target (a collision, were it part of the result):
    whatever its text, and whether or not unregulated port-IDs are allowed, the outcome is that of the tree without it."""
    import pydsdl
    from .. import dsdlio
    api, allow, where, text = arg
    base = {"vnd/7000.T.1.0.dsdl": "uint8 a\n@sealed\n", "vnd/U.1.0.dsdl": "vnd.T.1.0 t\noth.Strasse.1.0 s\n@sealed\n", "lk/oth/Fine.1.0.dsdl": "@sealed\n",
            "lk/oth/Strasse.1.0.dsdl": "uint8 x\n@sealed\n"}
    # "casefold-*": a file that nothing can refer to (identifiers are ASCII) whose name equals a referenced name only after full
    # Unicode case folding (sharp s, long s) / after upper-casing (dotless i)
    outsider = {"lookup": "lk/oth/7000.Other.1.0.dsdl", "lookup-same-ns": "lk2/vnd/7000.Other.1.0.dsdl", "own-root": "vnd/7000.Sib.1.0.dsdl",
                "casefold-sharp-s": "lk/oth/Stra\u00dfe.1.0.dsdl", "casefold-long-s": "lk/oth/Stra\u017fse.1.0.dsdl",
                "upper-dotless-i": "lk/oth/F\u0131ne.1.0.dsdl"}[where]
    if where == "own-root" and api == "namespace":
        return None          # there it IS part of the result
    obs = []
    for files in (base, dict(base, **{outsider: text})):
        with dsdlio.Tree(dict(files, **{"lk2/vnd/.keep": ""}), "c19p") as tr:
            prints = []
            try:
                lookups = [tr.path("lk/oth"), tr.path("lk2/vnd")]
                if api == "namespace":
                    r = pydsdl.read_namespace(tr.path("vnd"), lookups, print_output_handler=lambda p, l, t: prints.append((l, t)),
                                              allow_unregulated_fixed_port_id=allow)
                    o = ["ok", sorted(str(t) for t in r)]
                else:
                    d, t_ = pydsdl.read_files([tr.path("vnd/7000.T.1.0.dsdl"), tr.path("vnd/U.1.0.dsdl")], [tr.path("vnd")], lookups,
                                              print_output_handler=lambda p, l, t: prints.append((l, t)), allow_unregulated_fixed_port_id=allow)
                    o = ["ok", sorted(str(t) for t in d), sorted(str(t) for t in t_)]
            except pydsdl.FrontendError as ex:
                o = ["err", type(ex).__name__, None if ex.path is None else str(ex.path)[len(str(tr.root)):], ex.line]
            except Exception as ex:      # noqa
                o = ["raw", type(ex).__name__, str(ex)[:100]]
            obs.append(o + [prints])
    r = {"nt": True, "key": core.jhash([api, allow, where, text])}
    if obs[0] != obs[1]:
        r["bad"] = {"kind": "outside-port-twin", "case": {"api": api, "allow_unregulated": allow, "where": where, "text": text},
                    "diff": [("the outcome changed with an unreferenced file", obs[1], obs[0])]}
    return r

def run(ctx):
    ctx.rule = ("TLC enumerates configurations (as C09/C10) for read_namespace and read_files with every target subset and "
                "every distinguished body; every configuration is materialised and read; for each definition outside the "
                "closure (in lookup directories, and for read_files also non-target files of the target root) the run is "
                "repeated with eight replacement texts (incl. an empty file) and the projection (types, links, or error class / path / line, print "
                "events) must not change. Non-trivial = configuration with at least two definitions and one reference")
    ctx.assumptions = ["TLC's evaluation of the specification", "malformed FILE NAMES in lookup directories may be reported "
                       "(inspected at listing time): not part of the replacements"]
    if ctx.tier == "quick":
        rr.run_cfg(ctx, "Reader_files2_bodies.cfg", "files", sample_mod=5, paired=True, focus=_focus)
        rr.run_cfg(ctx, "Reader_ns2_bodies.cfg", "namespace", sample_mod=5, paired=True, focus=_focus)
        rr.run_cfg(ctx, "Reader_files3_lean_two.cfg", "files", sample_mod=12, paired=True, focus=_focus)
        ctx.exhaustive = False
    else:
        rr.run_cfg(ctx, "Reader_files2_bodies.cfg", "files", paired=True, focus=_focus)
        rr.run_cfg(ctx, "Reader_ns2_bodies.cfg", "namespace", paired=True, focus=_focus)
        rr.run_cfg(ctx, "Reader_files3_lean.cfg", "files", sample_mod=4, paired=True, focus=_focus)
        ctx.exhaustive = False
    from . import c02
    from .. import core as _core
    twins = [(a, al, w, t) for a in ("namespace", "files") for al in (False, True) for w in ("lookup", "lookup-same-ns", "own-root", "casefold-sharp-s", "casefold-long-s", "upper-dotless-i")
             for t in ("@@ garbage ]\n", "", "uint8 a\n@sealed\n", "@print 1\n@assert false\n@sealed\n", "@sealed\n---\n@sealed\n")]
    c02.consume(ctx, _core.pmap(port_twin_worker, twins, chunksize=2), "port-twins")
    repo_suite_reader_trace(ctx)
    ctx.sample({"targets": ["d1/a/X.0.1"], "outside": "d1/a/Y.0.1 (same root, not a target, not referenced)",
                "replacements": ["garbage", "assertfail", "nomode", "print", "service", "badref", "empty", "blank"]})

def replay(ctx, rec):
    print("replay: re-run ./check %s --tier %s --seed %s (cases are enumerated by TLC)" % (ctx.pid, rec.get("tier"), rec.get("seed")))
    return 0
