"""C15 - a type's name, version and port-ID are exactly those encoded in its file path.

TLC: Paths.tla - the declarative Identity function over depths, names, versions, ports x working directories x target
spellings (absolute, working-directory-relative, root-relative) x root designations (absolute, relative, bare name,
none) x a second root before / after; DesignationIrrelevant; the set of combinations the documentation promises.
Binding A: each state is materialised (real directories, chdir), read_files / read_namespace called with exactly those
spellings; (1) a successful call must yield the path-derived identity and back pointers, (2) any failure must be an
InvalidDefinitionError, (3) promised combinations must succeed.  Malformed file names must be rejected.
"""
from __future__ import annotations
import os
from .. import core, tlc, tlaval, dsdlio
from . import c02

NS = {0: [], 1: ["felines"], 2: ["felines", "big"], 3: ["felines", "animals"]}

@core.safe
def worker(arg):
    import pydsdl
    block, seed = arg
    st = tlaval.parse_state_block(block)
    if st["ph"] != 1:
        return None
    c, out = st["case"], st["out"]
    fname = "%s%s.%d.%d.dsdl" % (("%d." % c["port"]) if c["port"] >= 0 else "", c["name"], c["ver"][0], c["ver"][1])
    rel_file = "/".join(["ws", "proj", "animals"] + NS[c["depth"]] + [fname])
    # the whole tree lives in a directory whose name differs from the root namespace's only by letter case (an ancestor that
    # a case-insensitive comparison would mistake for the root)
    body = "@sealed\n---\nuint8 r\n@sealed\n" if c["kind"] == "service" else "@sealed\n"
    fs = {"Animals/" + rel_file: body, "Animals/ws/proj/plants/trees/Oak.1.0.dsdl": "@sealed\n", "Animals/other/.keep": ""}
    diff = []
    with dsdlio.Tree(fs, "c15") as tr:
        base = os.path.join(str(tr.root.resolve()), "Animals")
        cwd = os.path.join(base, *c["cwd"]) if c["cwd"] else base
        file_abs = os.path.join(base, rel_file)
        root_abs = os.path.join(base, "ws", "proj", "animals")
        plants_abs = os.path.join(base, "ws", "proj", "plants")
        old = os.getcwd()
        os.chdir(cwd)
        try:
            if c["tsp"] == "abs":
                target = file_abs
            elif c["tsp"] == "cwdrel":
                target = os.path.relpath(file_abs, cwd)
            else:
                target = "/".join(["animals"] + NS[c["depth"]] + [fname])
            roots = {"abs": [root_abs], "rel": [os.path.relpath(root_abs, cwd)], "name": ["animals"], "none": []}[c["rdes"]]
            if c["extra"] == "before":
                roots = [plants_abs] + roots
            elif c["extra"] == "after":
                roots = roots + [plants_abs]
            elif c["extra"] == "name-before":
                roots = ["felines"] + roots
            elif c["extra"] == "name-after":
                roots = roots + ["felines"]
            succeeded = None
            try:
                if c["api"] == "files":
                    # the same designation as str / pathlib.Path, in a list / a tuple / as a single value / a one-shot iterable
                    from pathlib import Path
                    form = core.pick(block, "c15form", 4)
                    a_t, a_r = ([target], list(roots)) if form == 0 else ([Path(target)], [Path(r) for r in roots]) if form == 1 \
                        else ((Path(target),), tuple(roots)) if form == 2 else (target, (Path(r) for r in list(roots)))
                    direct, _tr = pydsdl.read_files(a_t, a_r, allow_unregulated_fixed_port_id=True)
                    t = direct[0] if len(direct) == 1 else None
                    if t is None:
                        diff.append(("read_files returned %d direct types" % len(direct),))
                else:
                    from pathlib import Path
                    res = pydsdl.read_namespace(Path(roots[0]) if core.pick(block, "c15form", 2) else roots[0], allow_unregulated_fixed_port_id=True)
                    t = res[0] if len(res) == 1 else None
                    if t is None:
                        diff.append(("read_namespace returned %d types" % len(res),))
                succeeded = True
                if t is not None:
                    ident = out["identity"]
                    exp_root = os.path.join(base, *ident["root"])
                    exp = (".".join(ident["components"]), ident["major"], ident["minor"], None if ident["port"] < 0 else ident["port"],
                           file_abs, exp_root)
                    got = (t.full_name, t.version.major, t.version.minor, t.fixed_port_id, str(t.source_file_path),
                           str(t.source_file_path_to_root))
                    if got != exp:
                        diff.append(("identity / back pointers", got, exp))
                    if (t.has_fixed_port_id != (ident["port"] >= 0)) or t.short_name != c["name"] or t.root_namespace != ident["components"][0]:
                        diff.append(("derived accessors", t.has_fixed_port_id, t.short_name, t.root_namespace))
                    # the request / response part of a service: types of their own in the same file (Paths.tla, Parts)
                    parts = [t.request_type, t.response_type] if isinstance(t, pydsdl.ServiceType) else []
                    exp_parts = [(".".join(p["components"]), p["major"], p["minor"], None if p["port"] < 0 else p["port"], file_abs,
                                  os.path.join(base, *p["root"])) for p in out["parts"]]
                    got_parts = [(q.full_name, q.version.major, q.version.minor, q.fixed_port_id, str(q.source_file_path),
                                  str(q.source_file_path_to_root)) for q in parts]
                    if got_parts != exp_parts:
                        diff.append(("identity / back pointers of the request and response part", got_parts, exp_parts))
                    for q in parts:
                        if not q.has_parent_service or q.has_fixed_port_id or q.root_namespace != ident["components"][0] \
                                or q.full_namespace != t.full_name or q.deprecated != t.deprecated:
                            diff.append(("derived accessors of a service part", q.full_name, q.has_parent_service, q.full_namespace))
            except pydsdl.InvalidDefinitionError as ex:
                succeeded = False
                if out["promised"]:
                    diff.append(("a documented way of designating target and root failed", type(ex).__name__, str(ex)[:300]))
            except Exception as ex:
                diff.append(("exception other than InvalidDefinitionError", type(ex).__name__, str(ex)[:300]))
            # the same file once more in this process, designated through an INNER directory as its root namespace
            # directory: the identity is the path relative to whatever directory is designated (nothing learnt about this
            # directory in the first call may be carried over)
            if c["depth"] >= 1 and not diff:
                inner_root = os.path.join(root_abs, NS[c["depth"]][0])
                try:
                    res2 = pydsdl.read_namespace(inner_root, allow_unregulated_fixed_port_id=True)
                    t2 = res2[0] if len(res2) == 1 else None
                    comps = NS[c["depth"]] + [c["name"]]
                    if t2 is None or t2.full_name != ".".join(comps) or str(t2.source_file_path_to_root) != inner_root \
                            or str(t2.source_file_path) != file_abs or t2.root_namespace != comps[0]:
                        diff.append(("identity / back pointers when an inner directory is the root", None if t2 is None else
                                     (t2.full_name, str(t2.source_file_path_to_root)), (".".join(comps), inner_root)))
                except pydsdl.InvalidDefinitionError as ex:
                    if NS[c["depth"]][-1] != "animals" or c["depth"] != 3:
                        diff.append(("reading the inner directory as a root namespace failed", type(ex).__name__, str(ex)[:200]))
                except Exception as ex:
                    diff.append(("exception other than InvalidDefinitionError (inner root)", type(ex).__name__, str(ex)[:300]))
        finally:
            os.chdir(old)
        # the strategy-by-strategy transcription in Paths.tla predicts the outcome of every combination, promised or not
        if succeeded is not None and succeeded != (out["model"] == "ok"):
            diff.append(("outcome differs from the transcribed inference strategies", "succeeded" if succeeded else "rejected", out["model"]))
    r = {"nt": bool(out["promised"]), "key": core.jhash(tlaval.to_json(c))}
    if diff:
        r["bad"] = {"kind": "paths", "case": tlaval.to_json(c), "target": target, "roots": [str(x) for x in roots], "cwd": list(c["cwd"]),
                    "diff": diff, "expected": tlaval.to_json(out)}
    return r

MALFORMED = ["T.1.dsdl", "T.dsdl", "1.2.T.1.0.dsdl", "T.a.0.dsdl", "T.1.b.dsdl", "x.T.1.0.dsdl", "T.1.0.0.1.dsdl", ".1.0.dsdl",
             "9T.1.0.dsdl", "T-x.1.0.dsdl", "T x.1.0.dsdl", "T.-1.0.dsdl", "-1.T.1.0.dsdl", "T..0.dsdl", "1..T.1.0.dsdl",
             "T.1.0.extra.dsdl", "dsdl.dsdl"]
MALFORMED_DIRS = ["ns.x/T.1.0.dsdl", "9ns/T.1.0.dsdl", "n-s/T.1.0.dsdl"]
VALID = ["T.1.0.dsdl", "7509.T.1.0.dsdl", "T.255.255.uavcan", "sub/T_2.0.1.dsdl"]

@core.safe
def malformed_worker(arg):
    import pydsdl
    name, valid, where = arg
    fs = {"vnd/" + name: "@sealed\n", "vnd/Ok.1.0.dsdl": "@sealed\n"} if where == "target" else \
         {"vnd/Ok.1.0.dsdl": "@sealed\n", "lk/" + name: "@sealed\n", "lk/Fine.1.0.dsdl": "@sealed\n"}
    diff = []
    with dsdlio.Tree(fs, "c15m") as tr:
        status, res, _ = dsdlio.read_ns(tr.path("vnd"), [tr.path("lk")] if where == "lookup" else [], allow_unregulated=True)
        if valid:
            if status != "ok":
                diff.append(("well-formed file name rejected", name, str(res)[:200]))
        elif where == "target":
            if status == "ok":
                diff.append(("malformed file name accepted", name, [str(t) for t in res]))
            elif not isinstance(res, pydsdl.InvalidDefinitionError):
                diff.append(("malformed file name: exception other than InvalidDefinitionError", name, type(res).__name__, str(res)[:200]))
        else:   # lookup directory: may be reported (inspected at listing time) but only as InvalidDefinitionError
            if status == "err" and not isinstance(res, pydsdl.InvalidDefinitionError):
                diff.append(("malformed file name in a lookup directory: exception other than InvalidDefinitionError", name, type(res).__name__))
    r = {"nt": True, "key": "mal:" + name + where}
    if diff:
        r["bad"] = {"kind": "malformed-name", "case": {"file": name, "where": where}, "diff": diff}
    return r

def run(ctx):
    ctx.rule = ("TLC enumerates every spellable combination of depth 0-2 x port absent/0/7509 x versions 0.1/1.0/255.255 x two "
                "short names x five working directories x three target spellings x four root designations x second root "
                "absent/before/after x API (read_files, read_namespace): each is executed in a real directory tree with "
                "chdir; successes are compared with the path-derived identity and back pointers, failures must be "
                "InvalidDefinitionError, promised combinations must succeed; nested files are read once more in the same process with "
                "the inner directory designated as root. 21 malformed and 4 well-formed file / directory "
                "names are read in target and lookup position. Non-trivial = promised combination")
    ctx.assumptions = ["TLC's evaluation of the specification", "int() leniency in file names (+5, -0, 1_0, blanks) is not judged",
                       "root names are unique along each path; no two roots contain the same relative target"]
    ctx.note("absolute targets with a RELATIVE root path are not inferred (PathInferenceError, an InvalidDefinitionError): not "
             "among the documented combinations, so clause (2) applies")
    c02.run_cfg(ctx, "Paths", "Paths.cfg" if ctx.tier == "quick" else "Paths_thorough.cfg", worker, "paths")
    items = [(n, False, w) for n in MALFORMED + MALFORMED_DIRS for w in ("target", "lookup")] + [(n, True, "target") for n in VALID]
    c02.consume(ctx, core.pmap(malformed_worker, items, chunksize=4), "mal")
    ctx.sample({"cwd": "/ws", "target": "proj/animals/felines/7509.Tabby_2.1.0.dsdl", "roots": ["animals", "/ws/proj/plants"],
                "expected": "animals.felines.Tabby_2.1.0 port 7509"})

def replay(ctx, rec):
    print("replay: re-run ./check %s --tier %s --seed %s (cases are enumerated by TLC)" % (ctx.pid, rec.get("tier"), rec.get("seed")))
    return 0
