"""C11 - port-ID and minor-version consistency rules hold for every set of definitions.

TLC: CrossDef.tla - LoopsDecideTheRules: the pairwise loops of the implementation decide exactly the declarative rules
of the statement, for every pair, every chain of 3 / 4 minor versions under one major (and sampled mixed triples) of definitions over names x majors {0,1,2} x minors x kinds x
ports {none, 0, 5} x sealing x size classes (request and response separately for services).
Binding A: every set is materialised in one namespace (file names carry port and version, bodies carry sealing /
extent, `---` for services) and read with read_namespace; accept / reject (InvalidDefinitionError) is compared.
"""
from __future__ import annotations
from .. import core, tlc, tlaval, dsdlio
from . import c02

def part_text(p, field):
    body = "uint8 %s\n" % field if p["x"] == "e" else "uint16 %s\n" % field
    if p["sealed"]:
        return body + "@sealed\n"
    return body + "@extent %d\n" % (64 if p["x"] == "e" else 128)

def files_of(defs, root="vnd"):
    fs = {}
    for d in defs:
        fn = "%s%s.%d.%d.dsdl" % (("%d." % d["port"]) if d["port"] >= 0 else "", d["name"], d["maj"], d["min"])
        text = part_text(d["req"], "a")
        if d["kind"] == "svc":
            text += "---\n" + part_text(d["resp"], "b")
        fs["%s/%s" % (root, fn)] = text
    return fs

@core.safe
def worker(arg):
    import pydsdl
    block, seed, mod = arg
    if not core.sampled(block, mod):
        return None
    st = tlaval.parse_state_block(block)
    if st["ph"] < 2:
        return None
    defs = sorted(st["case"], key=lambda d: (d["name"], d["maj"], d["min"]))
    consistent = st["out"]
    diff = []
    placements = ["target"]
    same_line = len({(d["name"], d["maj"]) for d in defs}) == 1 and all(d["kind"] == "msg" for d in defs) and len(defs) >= 2
    if same_line and core.pick(block, "placement", 2) == 0:
        # minor versions of one type split between the target namespace and a lookup directory of the same name (the one
        # in the lookup directory is referred to by a target, so it is part of the result): the version rules relate
        # direct and transitive definitions alike, whichever of them is the newer one
        placements += ["oldest-in-lookup", "newest-in-lookup"]
    # the rules speak of the ORDER of minor versions: the same set renumbered order-preservingly with numbers of one and of
    # two digits (2 < 9 < 10 < 11 numerically, not as text)
    if len({d["min"] for d in defs}) >= 2 and core.pick(block, "renumber", 2) == 0:
        placements.append("renumbered")
    # definitions of different names in two root namespaces, read together through read_files
    if len({d["name"] for d in defs}) == len(defs) >= 2 and core.pick(block, "tworoots", 2) == 0:
        placements.append("two-roots")
    for pl in placements:
        fs = files_of(defs)
        lookups = []
        if pl == "renumbered":
            fs = files_of([dict(d_, min=[0, 2, 9, 10, 11, 12][d_["min"]]) for d_ in defs])
        if pl == "two-roots":
            fs = files_of(defs[:1])
            fs.update(files_of(defs[1:], root="oth"))
            with dsdlio.Tree(fs, "c11") as tr:
                try:
                    direct, _tr = pydsdl.read_files([tr.path(k) for k in sorted(fs)], [tr.path("vnd"), tr.path("oth")],
                                                    allow_unregulated_fixed_port_id=True)
                    status, res = "ok", direct
                except Exception as ex:      # noqa - the class is the observation
                    status, res = "err", ex
            if status == "err" and not isinstance(res, pydsdl.InvalidDefinitionError):
                diff.append(("exception other than InvalidDefinitionError", pl, type(res).__name__, str(res)[:200]))
            elif (status == "ok") != consistent:
                diff.append(("accepted (%s)" % pl, status == "ok", consistent, str(res)[:200] if status == "err" else None))
            continue
        if pl in ("oldest-in-lookup", "newest-in-lookup"):
            # the type is renamed so that other direct definitions sort before AND after it: in the list of all types
            # (transitive, then direct) its versions are then not neighbours
            ren = [dict(d_, name="M" + d_["name"]) for d_ in defs]
            moved = ren[0] if pl == "oldest-in-lookup" else ren[-1]
            one = files_of([moved])
            fs = {("l/" + k if k in one else "t/" + k): v for k, v in files_of(ren).items()}
            fs["t/vnd/Zref.1.0.dsdl"] = "vnd.%s.%d.%d x\n@sealed\n" % (moved["name"], moved["maj"], moved["min"])
            fs["t/vnd/Aref.1.0.dsdl"] = "vnd.%s.%d.%d x\n@sealed\n" % (moved["name"], moved["maj"], moved["min"])
        with dsdlio.Tree(fs, "c11") as tr:
            if pl in ("target", "renumbered"):
                status, res, _ = dsdlio.read_ns(tr.path("vnd"), allow_unregulated=True)
            else:
                status, res, _ = dsdlio.read_ns(tr.path("t/vnd"), [tr.path("l/vnd")], allow_unregulated=True)
            if status == "err" and not isinstance(res, pydsdl.InvalidDefinitionError):
                diff.append(("exception other than InvalidDefinitionError", pl, type(res).__name__, str(res)[:200]))
            elif (status == "ok") != consistent:
                diff.append(("accepted (%s)" % pl, status == "ok", consistent, str(res)[:200] if status == "err" else None))
            elif status == "ok" and pl == "target" and len(res) != len(defs):
                diff.append(("number of types", len(res), len(defs)))
    r = {"nt": True, "key": core.jhash(tlaval.to_json(defs))}
    if diff:
        r["bad"] = {"kind": "crossdef", "case": tlaval.to_json(defs), "files": files_of(defs), "diff": diff,
                    "expected_consistent": consistent}
    return r

@core.safe
def scope_worker(arg):
    """Violations located in lookup namespaces: the version rules range over direct + transitive, the port-ID rule over
    the target namespace only (a collision among definitions that are merely looked up is not the caller's)."""
    import pydsdl
    k = arg
    diff = []
    # (a) minor-version violation between two referenced lookup definitions of one name: rejected
    fs = {"t/vnd/B.1.0.dsdl": "vnd.A.1.0 x\nvnd.A.1.1 y\n@sealed\n", "l/vnd/A.1.0.dsdl": "uint8 a\n@sealed\n",
          "l/vnd/A.1.1.dsdl": "uint8 a\n@extent 64\n"}
    with dsdlio.Tree(fs, "c11s") as tr:
        status, res, _ = dsdlio.read_ns(tr.path("t/vnd"), [tr.path("l/vnd")])
        if not (status == "err" and isinstance(res, pydsdl.InvalidDefinitionError)):
            diff.append(("sealing mismatch between two referenced lookup versions accepted", status))
    # (b) the same, consistent: accepted
    fs = {"t/vnd/B.1.0.dsdl": "vnd.A.1.0 x\nvnd.A.1.1 y\n@sealed\n", "l/vnd/A.1.0.dsdl": "uint8 a\n@extent 64\n",
          "l/vnd/A.1.1.dsdl": "uint8 a\nuint8 b\n@extent 64\n"}
    with dsdlio.Tree(fs, "c11s") as tr:
        status, res, _ = dsdlio.read_ns(tr.path("t/vnd"), [tr.path("l/vnd")])
        if status != "ok":
            diff.append(("consistent referenced lookup versions rejected", str(res)[:200]))
    # (c) port-ID collision between two target definitions of different names: rejected; kinds differ: accepted
    fs = {"vnd/7000.A.1.0.dsdl": "@sealed\n", "vnd/7000.B.1.0.dsdl": "@sealed\n"}
    with dsdlio.Tree(fs, "c11s") as tr:
        status, res, _ = dsdlio.read_ns(tr.path("vnd"), allow_unregulated=False)
        if not (status == "err" and isinstance(res, pydsdl.InvalidDefinitionError)):
            diff.append(("regulated port-ID collision accepted", status))
    fs = {"vnd/300.A.1.0.dsdl": "@sealed\n---\n@sealed\n", "vnd/300.B.1.0.dsdl": "@sealed\n"}
    with dsdlio.Tree(fs, "c11s") as tr:
        status, res, _ = dsdlio.read_ns(tr.path("vnd"), allow_unregulated=True)
        if status != "ok":
            diff.append(("subject and service sharing a number rejected", str(res)[:200]))
    # (d) two files of one name and version that differ in layout (and port-ID / suffix): never both honoured, never one dropped
    for fs in ({"vnd/7000.Foo.1.0.dsdl": "uint8 a\n@sealed\n", "vnd/7001.Foo.1.0.dsdl": "uint16 a\n@sealed\n"},
               {"vnd/Foo.1.0.dsdl": "uint8 a\n@sealed\n", "vnd/Foo.1.0.uavcan": "uint16 a\n@sealed\n"},
               {"vnd/300.Srv.1.0.dsdl": "uint8 a\n@sealed\n---\n@sealed\n", "vnd/301.Srv.1.0.dsdl": "uint16 a\n@sealed\n---\n@sealed\n"},
               {"vnd/7000.Foo.1.0.dsdl": "uint8 a\n@sealed\n", "vnd/Foo.1.0.dsdl": "uint8 a\n@extent 64\n", "vnd/Bar.1.0.dsdl": "@sealed\n"},
               {"vnd/7000.Foo.1.1.dsdl": "uint8 a\n@sealed\n", "vnd/7001.Foo.1.1.dsdl": "uint8 a\nuint8 b\n@sealed\n", "vnd/Foo.1.0.dsdl": "uint8 a\n@sealed\n"}):
        with dsdlio.Tree(fs, "c11s") as tr:
            status, res, _ = dsdlio.read_ns(tr.path("vnd"), allow_unregulated=True)
            if not (status == "err" and isinstance(res, pydsdl.InvalidDefinitionError)):
                diff.append(("two files of one name and version with different layouts accepted", sorted(fs),
                             [str(t.source_file_path.name) for t in res] if status == "ok" else type(res).__name__))
    r = {"nt": True, "key": "scope%d" % k}
    if diff:
        r["bad"] = {"kind": "crossdef-scope", "case": "scopes", "diff": diff}
    return r

def run(ctx):
    ctx.rule = ("TLC enumerates every pair {A.M.0, N.M'.m'} (N in A,B; M, M' in 0..2; m' in 0,1) x attribute combinations "
                "(message / service, port none / 0 / 5, sealed or delimited, two size classes, response equal / flipped "
                "sealing / other size), every chain of three (thorough: four) minor versions A.M.1 .. A.M.3 under one major "
                "version over kind x port x sealing x size, each set is materialised in one namespace and read; accepted "
                "vs rejected-with-InvalidDefinitionError is compared with the declarative rules. Every case is non-trivial "
                "(two definitions interact or not); distinct by hash of the set")
    ctx.assumptions = ["TLC's evaluation of the specification", "violations located in lookup namespaces are covered by four "
                       "fixed scope cases; for minor versions of one message type the oldest / newest one is also placed in a same-named lookup directory and referred to"]
    quick = ctx.tier == "quick"
    c02.run_cfg(ctx, "CrossDef", "CrossDef_pairs.cfg", worker, "pairs", mk=lambda blocks: [(b, ctx.seed, 1) for b in blocks], shuffle=True)
    c02.run_cfg(ctx, "CrossDef", "CrossDef_chain3.cfg", worker, "chain3", mk=lambda blocks: [(b, ctx.seed, 1) for b in blocks], shuffle=True)
    if not quick:
        c02.run_cfg(ctx, "CrossDef", "CrossDef_chain4.cfg", worker, "chain4", mk=lambda blocks: [(b, ctx.seed, 1) for b in blocks], shuffle=True)
        # (CrossDef_triples.cfg - mixed triples, 1.3 * 10^7 states - is not part of the registered run: its dump alone takes longer
        # than the rest of the tier; TLC checks LoopsDecideTheRules on it in about a minute: tlc -config CrossDef_triples.cfg CrossDef.tla)
        ctx.exhaustive = False
    c02.consume(ctx, core.pmap(scope_worker, [0], procs=1), "scope")
    ctx.sample({"set": ["vnd/0.A.1.0.dsdl (message, sealed)", "vnd/5.A.1.1.dsdl (message, sealed)"], "expected": "rejected: port-ID changed under one major version"})

def replay(ctx, rec):
    print("replay: re-run ./check %s --tier %s --seed %s (cases are enumerated by TLC)" % (ctx.pid, rec.get("tier"), rec.get("seed")))
    return 0
