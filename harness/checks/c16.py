"""C16 - layout analysis is symbolic: cost does not grow with capacities or extents.

TLC: BitLengthSets.tla (lemma machine) - CostIndependentOfK, CostBounded, Reduction: the enumeration the design performs
for a repetition depends on the count only through EquivK(k, d) < 2d, residues never exceed the divisor.
Binding B: a family of definitions (element kinds x array kinds x nesting 1-3 x delimited wrappers) is read and queried
(min, max, extent, fixed_length, byte alignment of the type and of every field offset, ==, hash) for capacity exponents
1..63 with the solver hooks on; every recorded event is validated by TLC against the design (TraceSolver.tla: reduced
counts, residue bounds, no expansion of a large set during the queries).  The relational statement is decided on a
deterministic operation count (bytecode instructions executed inside pydsdl/_bit_length_set, counted with sys.monitoring): not growing with the capacity
from 2**16 elements upward, and below a fixed budget.  Wall time is reported, never judged.
"""
from __future__ import annotations
import json, os, subprocess, sys, time
from .. import core, tlc, tlaval, dsdlio, records

EXPS = [1, 4, 8, 16, 32, 63]
ELEMS = {"bit": "bool", "byte": "uint8", "subbyte": "ns.Sub.1.0", "varcomp": "ns.VarComp.1.0", "u13": "uint13", "empty": "ns.Empty.1.0"}
HANG_S = 180
INTRINSIC_S = 25
BUDGET = 40_000_000

_PROBE = r'''
import sys, json, os, time
sys.path.insert(0, sys.argv[1]); sys.dont_write_bytecode = True
os.environ["OPENCYPHAL_PYDSDL_VERIF"] = "1"
import pydsdl
from pydsdl import _verif_trace
root, budget = sys.argv[2], int(sys.argv[3])
import types
from pydsdl._bit_length_set import _symbolic, _bit_length_set
mon = sys.monitoring
TOOL = 3
mon.use_tool_id(TOOL, "verif")
count = [0]
class Over(Exception): pass
def on_instr(code, offset):
    count[0] += 1
    if count[0] > budget:
        raise Over()
mon.register_callback(TOOL, mon.events.INSTRUCTION, on_instr)
def codes_of(mod):
    seen = []
    def walk(co):
        seen.append(co)
        for c in co.co_consts:
            if isinstance(c, types.CodeType):
                walk(c)
    for name, obj in vars(mod).items():
        if isinstance(obj, types.FunctionType) and obj.__module__ == mod.__name__:
            walk(obj.__code__)
        elif isinstance(obj, type) and obj.__module__ == mod.__name__:
            for n2, o2 in vars(obj).items():
                f = o2.fget if isinstance(o2, property) else (o2.__func__ if isinstance(o2, (staticmethod, classmethod)) else o2)
                if isinstance(f, types.FunctionType):
                    walk(f.__code__)
    return seen
CODES = codes_of(_symbolic) + codes_of(_bit_length_set)
def tracing(on):
    for co in CODES:
        mon.set_local_events(TOOL, co, mon.events.INSTRUCTION if on else 0)
out = {"events": [], "ops": None, "over": False, "wall": None}
t0 = time.time()
phase = ["read"]
try:
    tracing(True)
    types = pydsdl.read_namespace(root)
    _verif_trace_events_read = _verif_trace.drain()
    phase[0] = "query"
    obs = []
    for t in types:
        if isinstance(t, pydsdl.ServiceType):
            continue
        b = t.bit_length_set
        obs.append([t.full_name, str(b.min), str(b.max), str(t.extent), b.fixed_length, b.is_aligned_at_byte()])
        for f, o in t.iterate_fields_with_offsets():
            obs.append([f.name, o.is_aligned_at_byte(), str(o.min), str(o.max)])
        obs.append([hash(t) is not None, t == t])
    types2 = pydsdl.read_namespace(root)
    for a, b in zip(types, types2):
        obs.append([a == b, hash(a) == hash(b)])
    # nested traversal as documented: the offset of a composite field is handed on as the base offset of its own fields
    # (and of the elements of short fixed arrays); the base offset then follows whatever huge array precedes the field
    for t in types:
        if isinstance(t, pydsdl.ServiceType):
            continue
        for f, o in t.iterate_fields_with_offsets():
            dt = f.data_type
            if isinstance(dt, pydsdl.CompositeType):
                for f2, o2 in dt.iterate_fields_with_offsets(o):
                    obs.append([f2.name, o2.is_aligned_at_byte(), str(o2.min), str(o2.max)])
            elif isinstance(dt, pydsdl.FixedLengthArrayType) and dt.capacity <= 4:
                for i2, o2 in dt.enumerate_elements_with_offsets(o):
                    obs.append([i2, o2.is_aligned_at_byte(), str(o2.max)])
    # small sets that have been expanded numerically before (cheap, and legitimate) meet huge ones in comparisons
    small = [t for t in types if not isinstance(t, pydsdl.ServiceType) and t.full_name in ("ns.Sub", "ns.VarComp", "ns.Empty")]
    for t in small:
        obs.append(sorted(t.bit_length_set))
    for a in small:
        for b in types:
            if not isinstance(b, pydsdl.ServiceType):
                obs.append([a.bit_length_set == b.bit_length_set, b.bit_length_set != a.bit_length_set, a == b, b in small])
    tracing(False)
    ev_q = _verif_trace.drain()
    solver = ("modulo", "expand")  # the other hooks (statements, reader, serdes) are not this check's concern
    out["events"] = ([dict(e, phase="read") for e in _verif_trace_events_read if e["ev"] in solver] +
                     [dict(e, phase="query") for e in ev_q if e["ev"] in solver])
    out["other_events"] = len(_verif_trace_events_read) + len(ev_q) - len(out["events"])
    out["obs"] = obs
except Over:
    out["over"] = True
finally:
    tracing(False)
out["ops"] = count[0]
out["wall"] = time.time() - t0
print(json.dumps(out))
'''

def family(e: int):
    """DSDL namespaces parameterised by the capacity 2**e (and 2**e - 1, 2**e + 3 for non-aligned remainders)."""
    cap = 2 ** e if e >= 0 else -e      # a negative "exponent" -n stands for the small capacity n
    fs = {"ns/Sub.1.0.dsdl": "uint3 a\n@sealed\n", "ns/VarComp.1.0.dsdl": "uint8[<=7] v\n@sealed\n", "ns/Empty.1.0.dsdl": "@sealed\n"}
    n = 0
    for ek, et in ELEMS.items():
        for kind in ("fix", "var"):
            arr = "%s[%d]" % (et, cap) if kind == "fix" else "%s[<=%d]" % (et, cap)
            n += 1
            fs["ns/L1_%s_%s.1.0.dsdl" % (ek, kind)] = "bool flag\n%s items\nuint5 tail\n@sealed\n" % arr
        # a huge fixed-length part next to a small variable-length one: the set is narrow (few elements, small span) yet
        # expanding it numerically would cost time proportional to the capacity
        fs["ns/Narrow_%s_a.1.0.dsdl" % ek] = "%s[%d] big\nuint8[<=2] small\n@sealed\n" % (et, cap)
        fs["ns/Narrow_%s_b.1.0.dsdl" % ek] = "bool[<=3] small\n%s[%d] big\nuint3 t\n@sealed\n" % (et, cap)
    # nesting 2 and 3: arrays of composites that contain big arrays; delimited wrappers with big extents
    fs["ns/Inner.1.0.dsdl"] = "uint8[<=%d] data\nuint2 x\n@sealed\n" % cap
    fs["ns/L2.1.0.dsdl"] = "ns.Inner.1.0[<=%d] inners\nbool b\nns.Inner.1.0[3] three\n@sealed\n" % cap
    fs["ns/L3.1.0.dsdl"] = "ns.L2.1.0[<=%d] deep\nuint7 y\nns.VarComp.1.0[%d] many\n@sealed\n" % (min(cap, 2 ** 20), cap)
    fs["ns/Delim.1.0.dsdl"] = "uint8[<=%d] payload\n@extent %d\n" % (max(1, cap // 8), 8 * (cap + 64))
    fs["ns/UsesDelim.1.0.dsdl"] = "ns.Delim.1.0[<=%d] ds\nuint3 z\nns.Delim.1.0 one\n@sealed\n" % min(cap, 2 ** 40)
    fs["ns/Uni.1.0.dsdl"] = "@union\nuint8[<=%d] a\nns.Inner.1.0[2] b\nbool c\n@sealed\n" % cap
    # composite fields and short fixed arrays behind huge arrays: their offsets are bases of nested traversals
    fs["ns/Behind.1.0.dsdl"] = "ns.Inner.1.0[<=%d] big\nns.Sub.1.0 sub\nns.VarComp.1.0[3] three\nns.Inner.1.0 inner\n@sealed\n" % min(cap, 2 ** 20)
    return fs

@core.safe
def probe_worker(e):
    with dsdlio.Tree(family(e), "c16") as tr:
        try:
            p = subprocess.run([sys.executable, "-c", _PROBE, str(core.REPO), str(tr.path("ns")), str(BUDGET)], capture_output=True, text=True,
                               env=dict(os.environ, PYTHONDONTWRITEBYTECODE="1", OPENCYPHAL_PYDSDL_VERIF="1"), timeout=HANG_S)
        except subprocess.TimeoutExpired:
            # only a terminator for work stuck inside C-level iteration (not counted as instructions): the unchanged tree
            # needs about one second
            return {"e": e, "fail": "reading and querying did not finish within %d s (the unchanged tree needs ~1 s)" % HANG_S}
    if p.returncode != 0:
        return {"e": e, "fail": p.stderr[-600:]}
    out = json.loads(p.stdout.strip().splitlines()[-1])
    out["e"] = e
    return out

_INTRINSIC_PROBE = r'''
import sys, time
sys.path.insert(0, sys.argv[1]); sys.dont_write_bytecode = True
import pydsdl
t0 = time.time()
types = pydsdl.read_namespace(sys.argv[2])
print("ok %d %.3f" % (len(types), time.time() - t0))
'''

@core.safe
def intrinsic_worker(arg):
    """A definition that READS `_offset_` (the idiom `@assert _offset_ % 8 == {0}`) behind an array of 2**e elements."""
    e, form = arg
    cap = 2 ** e if e >= 0 else -e      # a negative "exponent" -n stands for the small capacity n
    body = {"assert-mod": "uint8[<=%d] data\n@assert _offset_ %% 8 == {0}\nuint8 tail\n@sealed\n" % cap,
            "extent-max": "uint8[<=%d] data\n@extent _offset_.max * 2\n" % cap}[form]
    with dsdlio.Tree({"ns/UsesOffset.1.0.dsdl": body}, "c16i") as tr:
        t0 = time.time()
        try:
            p = subprocess.run([sys.executable, "-c", _INTRINSIC_PROBE, str(core.REPO), str(tr.path("ns"))], capture_output=True, text=True,
                               env=dict(os.environ, PYTHONDONTWRITEBYTECODE="1"), timeout=INTRINSIC_S)
            out = "ok" if p.returncode == 0 and p.stdout.startswith("ok") else "failed: " + (p.stderr.strip().splitlines() or ["?"])[-1][:200]
        except subprocess.TimeoutExpired:
            out = "did not finish within %d s" % INTRINSIC_S
    return {"e": e, "form": form, "outcome": out, "wall": round(time.time() - t0, 2)}

def signature(events):
    """What determines the enumeration work of an event sequence (the count itself is masked)."""
    sig = []
    for ev in events:
        if ev["ev"] == "modulo":
            sig.append((ev["op"], ev["d"], ev.get("keq"), ev.get("n"), tuple(ev.get("sizes", ())), ev.get("lcm")))
        else:
            sig.append(("expand", ev["op"], ev["size"] if ev["size"] <= 64 else "large"))
    return sig

def run(ctx):
    ctx.rule = ("A family of %d definitions (element kinds bit / byte / 13-bit / sub-byte composite / variable-length "
                "composite / zero-length composite x fixed / variable arrays, narrow sets with a huge fixed part, nesting 2 and 3, "
                "delimited wrappers, a union) is instantiated for capacity " % (len(family(8)) - 3) +
                "exponents 1, 4, 8, 16, 32, 63, read twice and queried (min, max, extent, fixed_length, byte alignment of the "
                "type and every field offset incl. nested traversals with the field offset as base, ==, hash, comparisons of previously expanded small sets with huge ones) in a subprocess with the solver hooks on; every solver event is "
                "validated by TLC; bytecodes executed inside the bit length set package are counted. Non-trivial = "
                "repetition event with a count >= 2 * divisor; distinct by event signature")
    ctx.assumptions = ["Apalache / z3 for the unbounded arithmetic lemma (EquivK(k, d) is congruent to k, never above k and below 2d for every k >= 2d)",
                       "wall time and memory as such are not decided; the decided statement is the operation-count form: no growth of the "
                       "count from 2**16 elements upward and a fixed budget (4 * 10^7 instructions, ~9x the unchanged tree)",
                       "TLC's evaluation of the specification"]
    cfg = "BLS_lemma_quick.cfg" if ctx.tier == "quick" else "BLS_lemma_thorough.cfg"
    res = tlc.run("BitLengthSets", cfg, tag="c16lemma", timeout=3000)
    ctx.add_tlc(res, cfg)
    if res.violated:
        ctx.spec_violation(res, cfg)
    tlc.cleanup(res)
    # the same reduction for ALL naturals k, d (not only those TLC enumerates): Apalache, SMT over unbounded integers
    from .. import apalache
    apalache.check(ctx, "ArithLemmas", ["EquivKLemma"] if ctx.tier == "quick" else ["EquivKLemma", "PadIdem", "PadShift"])
    exps = EXPS if ctx.tier == "quick" else [1, 2, 4, 7, 8, 9, 16, 24, 32, 33, 48, 63]
    # capacities that are not powers of two and small enough for an exact treatment to look affordable (3, 6, 12 elements)
    exps = list(exps) + ([-3, -6, -12] if ctx.tier == "quick" else [-3, -5, -6, -10, -12, -24])
    results = core.pmap(probe_worker, exps, procs=min(8, len(exps)), chunksize=1)
    recs, by_id = [], {}
    per_e = {}
    for r in results:
        if "harness_exception" in r:
            raise tlc.MachineryError("probe failed: %s\n%s" % (r["harness_exception"], r["tb"]))
        if "fail" in r:
            ctx.violation({"kind": "cost", "case": {"capacity_exponent": r["e"]}, "diff": [("reading / querying failed", r["fail"])]})
            continue
        ctx.count()
        per_e[r["e"]] = r
        if r["over"]:
            ctx.violation({"kind": "cost", "case": {"capacity_exponent": r["e"]},
                           "diff": [("analysis exceeded the budget of %d bytecodes inside the bit length set package" % BUDGET, r["ops"])]})
            continue
        for ev in r["events"]:
            rec = {"id": len(recs) + 1, "ev": ev["ev"], "op": ev.get("op", ""), "d": ev.get("d", 0), "kmod": ev.get("kmod", 0),
                   "big": bool(ev.get("big", False)), "keq": ev.get("keq", 0), "n": ev.get("n", 0), "r": ev.get("r", 0), "lcm": ev.get("lcm", 0),
                   "sizes": ev.get("sizes", []), "size": min(ev.get("size", 0), 10 ** 9), "phase": ev.get("phase", "read"),
                   "ksmall": int(ev["k"]) if ("k" in ev and not ev.get("big") and int(ev["k"]) < 10 ** 6) else 0}
            recs.append(rec)
            by_id[rec["id"]] = (r["e"], ev)
            if ev.get("big"):
                ctx.nontriv("sig:%s" % (signature([ev]),))
    bad = records.check(ctx, "TraceSolver", recs, "c16rec", slices=8)
    for i in sorted(bad)[:50]:
        e, ev = by_id[i]
        ctx.violation({"kind": "cost", "case": {"capacity_exponent": e}, "diff": [("solver event contradicts the design", ev)]})
    ctx.traces += len(recs)
    ctx.count(len(recs))
    # relational statement: equal signatures and equal operation counts for capacities that agree modulo the divisors in play
    big = [e for e in sorted(per_e) if e >= 8 and not per_e[e]["over"]]
    ctx.extra["ops_by_exponent"] = {str(e): per_e[e]["ops"] for e in sorted(per_e)}
    ctx.extra["wall_by_exponent_s"] = {str(e): round(per_e[e]["wall"], 2) for e in sorted(per_e)}
    # A threshold below which small arrays are treated specially would be legitimate, so capacities are compared from
    # 2**16 elements upward only, and only *growth* of the work with the capacity is a violation (equal or less is fine;
    # a difference in the event signature alone is reported as a note).
    big = [e for e in big if e >= 16]
    for e1, e2 in zip(big, big[1:]):
        if per_e[e2]["ops"] > per_e[e1]["ops"]:
            ctx.violation({"kind": "cost", "case": {"capacity_exponent": e2, "reference": e1},
                           "diff": [("the operation count grows with the capacity", per_e[e2]["ops"], per_e[e1]["ops"])]})
        elif signature(per_e[e2]["events"]) != signature(per_e[e1]["events"]) or per_e[e2]["ops"] != per_e[e1]["ops"]:
            ctx.note("solver work differs between capacity exponents %d and %d without growing (%d vs %d operations)"
                             % (e1, e2, per_e[e1]["ops"], per_e[e2]["ops"]))
    # definitions that read the intrinsic `_offset_` behind a huge array (it is a SET in the expression language)
    intr = core.pmap(intrinsic_worker, [(e, f) for e in (8, 16, 40) for f in ("assert-mod", "extent-max")], procs=6, chunksize=1)
    ctx.extra["intrinsic_offset_probe"] = [r for r in intr if "harness_exception" not in r]
    for r in intr:
        if "harness_exception" in r:
            raise tlc.MachineryError("intrinsic probe failed: %s" % r)
        ctx.count()
        if r["outcome"] != "ok":
            ctx.violation({"kind": "cost-intrinsic", "intrinsic": "_offset_", "case": {"capacity_exponent": r["e"], "form": r["form"]},
                           "diff": [("reading a definition that evaluates _offset_ behind an array of 2**%d elements" % r["e"], r["outcome"])]})
    ctx.sample({"capacity_exponents": exps, "ops_by_exponent": ctx.extra["ops_by_exponent"]})

def replay(ctx, rec):
    print("replay: re-run ./check %s --tier %s (the family is fixed)" % (ctx.pid, rec.get("tier")))
    return 0
