"""Seed definitions (token sequences) and the replacement vocabulary of Funnel.tla's mutation machine.
The numbers of tokens / vocabulary entries are mirrored in spec/MC_Funnel.tla (checked at run time)."""
NL = "\n"
SEEDS = [
    # 1: constants, expressions, arrays, directives
    ["#", "header", NL, "uint8", "A", "=", "1", "+", "2", "*", "3", NL, "float32", "B", "=", "2", "**", "-1", NL,
     "uint8[<=4]", "arr", NL, "@assert", "A", "==", "7", NL, "@print", "{1,", "2}.count", NL, "bool", "flag", "#", "doc", NL,
     "void3", NL, "@sealed", NL],
    # 2: union, dependency, extent, service response with utf8
    ["@union", NL, "ns.Dep.1.0", "d", NL, "uint16", "x", NL, "@extent", "64", "*", "8", NL, "---", NL, "@deprecated_not", NL,
     "utf8[<=8]", "s", NL, "truncated", "uint3", "t", NL, "@assert", "_offset_", "%", "8", "==", "{0}", "||", "true", NL, "@sealed", NL],
    # 3: references, nested attribute access, sets and comparisons
    ["Dep.1.0[2]", "deps", NL, "int16", "LIMIT", "=", "ns.Dep.1.0.K", "*", "-2", NL, "@assert", "{1,", "2}", "<", "{1,", "2,", "3}", "&&",
     "!", "false", NL, "@print", "ns.Dep.1.0._extent_", "+", "LIMIT", NL, "@extent", "1024", NL],
]
VOCAB = [
    "+", "-", "*", "/", "%", "**", "|", "^", "&", "==", "!=", "<", "<=", ">", ">=", "||", "&&", "!", "(", ")", "[", "]", "{", "}", ",", ".", "..",
    "0", "1", "255", "256", "-1", "18446744073709551616", "1e308", "1.5", ".5", "0x", "0xFF", "0b102", "'x'", "\"y\"", "''", "'\\U00110000'",
    "'\\ud800'", "'\\x41'", "'unterminated", "true", "false",
    "uint8", "int1", "int64", "uint65", "float8", "float16", "void8", "void0", "utf8", "byte", "bool", "ns.Dep.1.0", "ns.Nope.1.0", "ns.dep.1.0",
    "Dep.1.0", "ns.Dep.1", "ns.Svc.1.0", "truncated", "saturated", "uint8[<=0]", "uint8[<2**64]", "byte[4]", "utf8[4]",
    "@union", "@sealed", "@extent", "@deprecated", "@assert", "@print", "@bogus", "@",
    "A", "_offset_", "zzz", "_x_", "uint", "---", "--", "=", "\n", "#", "\t", "\r\n", "\x00", "é",
    "010", "08", "007", "0_1_2", "00", "1__0", "1e", "1.e5", "0.1.2", "1_",
    "(-8)**(1/3)", "(10**400)**0.5", "1/0", "1%0", "{}", "{1,true}", "ns.Svc.1.0._extent_",
    # dependencies (in a lookup directory) that are themselves faulty, one per class of fault: no @sealed / @extent, an
    # undefined operator, an undefined attribute, a failing assertion, a syntax error, a name collision found at finalization
    "dep2.Bad.1.0", "dep2.BadOp.1.0", "dep2.BadAttr.1.0", "dep2.BadAssert.1.0", "dep2.BadSyntax.1.0", "dep2.BadNames.1.0",
]
BAD_DEPS = {"dep2.Bad.1.0": "Bad.1.0.dsdl", "dep2.BadOp.1.0": "BadOp.1.0.dsdl", "dep2.BadAttr.1.0": "BadAttr.1.0.dsdl",
            "dep2.BadAssert.1.0": "BadAssert.1.0.dsdl", "dep2.BadSyntax.1.0": "BadSyntax.1.0.dsdl", "dep2.BadNames.1.0": "BadNames.1.0.dsdl"}
LOOKUP_FILES = {"lk/dep2/Bad.1.0.dsdl": "uint8 a\n", "lk/dep2/BadOp.1.0.dsdl": "uint8 a\n@assert 1 + true\n@sealed\n",
                "lk/dep2/BadAttr.1.0.dsdl": "uint8 a\n@print {1, 2}.size\n@sealed\n", "lk/dep2/BadAssert.1.0.dsdl": "uint8 a\n@assert false\n@sealed\n",
                "lk/dep2/BadSyntax.1.0.dsdl": "uint8 a\n@@ ]\n@sealed\n", "lk/dep2/BadNames.1.0.dsdl": "uint8 a\nuint16 a\n@sealed\n"}
DEP_FILES = {"ns/Dep.1.0.dsdl": "uint8 K = 3\nuint8 v\n@sealed\n", "ns/Svc.1.0.dsdl": "@sealed\n---\n@sealed\n"}
