"""Entry point: ./check <ID> --tier quick|thorough [--seed N] [--replay PATH]"""
from __future__ import annotations
import argparse, importlib, json, os, shutil, sys, traceback
from . import core, tlc

def main() -> int:
    ap = argparse.ArgumentParser()
    ap.add_argument("pid")
    ap.add_argument("--tier", default=os.environ.get("VERIF_TIER", "quick"), choices=["quick", "thorough"])
    ap.add_argument("--seed", type=int, default=int(os.environ.get("VERIF_SEED", "0") or 0))
    ap.add_argument("--replay", default=None)
    a = ap.parse_args()
    pid = a.pid.upper()
    os.environ[core.GUARD] = "1"
    core.use_repo()
    core.quiet()
    try:
        mod = importlib.import_module("harness.checks." + pid.lower())
    except ModuleNotFoundError as ex:
        print("no check for %s: %s" % (pid, ex), file=sys.stderr)
        return 2
    core.set_seed(a.seed)
    ctx = core.Ctx(pid, a.tier, a.seed)
    try:
        if a.replay:
            rec = json.load(open(a.replay))
            return mod.replay(ctx, rec)
        mod.run(ctx)
        return ctx.finish()
    except tlc.MachineryError as ex:
        print("MACHINERY FAILURE in %s: %s" % (pid, str(ex)[-3000:]), file=sys.stderr)
        if ctx.violations:  # what was found before the failure still stands
            try:
                ctx.note("run ended early by a machinery failure: %s" % str(ex)[:300])
                return ctx.finish()
            except Exception:
                return 1
        return 2
    except Exception:
        traceback.print_exc()
        print("MACHINERY FAILURE in %s (harness exception)" % pid, file=sys.stderr)
        return 2
    finally:
        # remove this process's TLC work directories
        if tlc.WORK.exists():
            for d in tlc.WORK.iterdir():
                if ("-%d-" % os.getpid()) in d.name:
                    shutil.rmtree(d, ignore_errors=True)

if __name__ == "__main__":
    sys.exit(main())
