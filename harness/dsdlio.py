"""Materialise DSDL namespaces in scratch directories and project pydsdl results back to abstract form."""
from __future__ import annotations
import os, shutil, tempfile
from pathlib import Path

_SCRATCH = None

def scratch_root() -> Path:
    """One scratch directory per process, outside /repo and /verif; removed at exit."""
    global _SCRATCH
    if _SCRATCH is None or not _SCRATCH.exists() or _SCRATCH.name.split("-")[-1] != str(os.getpid()):
        base = Path(os.environ.get("VERIF_SCRATCH", tempfile.gettempdir()))
        _SCRATCH = Path(tempfile.mkdtemp(prefix="verif-", suffix="-%d" % os.getpid(), dir=str(base)))
        import atexit
        atexit.register(shutil.rmtree, str(_SCRATCH), True)
    return _SCRATCH

class Tree:
    """A scratch directory tree: files given as {relative path: text}; text written byte-exactly."""
    _count = 0
    # where a scratch tree is placed below the scratch root: plainly, below a hidden directory, below directories whose
    # names contain a dash / a blank / non-ASCII letters (uncommon but legal places for a namespace to live in)
    PARENTS = ["", ".cache/dsdl", "third-party", "with space", "donn\u00e9es", ""]
    def __init__(self, files: dict, tag: str = "t"):
        Tree._count += 1
        parent = scratch_root() / Tree.PARENTS[Tree._count % len(Tree.PARENTS)]
        parent.mkdir(parents=True, exist_ok=True)
        self.root = Path(tempfile.mkdtemp(prefix=tag + "-", dir=str(parent)))
        for rel, text in files.items():
            p = self.root / rel
            p.parent.mkdir(parents=True, exist_ok=True)
            if isinstance(text, bytes):
                p.write_bytes(text)
            else:
                with open(p, "w", newline="", encoding="utf8", errors="surrogatepass") as f:
                    f.write(text)
    def path(self, rel: str = "") -> Path:
        return self.root / rel
    def close(self):
        shutil.rmtree(self.root, ignore_errors=True)
    def __enter__(self):
        return self
    def __exit__(self, *a):
        self.close()

class _EmptyCallable(list):
    """A print handler that is a callable object whose truth value is False (an empty collection that collects)."""
    def __init__(self, fn):
        super().__init__()
        self._fn = fn
    def __call__(self, path, line, text):
        self._fn(path, line, text)

class _Method:
    def __init__(self, fn):
        self._fn = fn
    def handle(self, path, line, text):
        self._fn(path, line, text)

_FORM = [0]
def handler_form(fn):
    """Any callable is a print handler: a function, a bound method, a functools.partial, a callable object that is falsy."""
    import functools
    _FORM[0] += 1
    k = _FORM[0] % 4
    return fn if k == 0 else _Method(fn).handle if k == 1 else functools.partial(lambda f, p, l, t: f(p, l, t), fn) if k == 2 else _EmptyCallable(fn)

def read_ns(root, lookups=(), allow_unregulated=True, **kw):
    """Call pydsdl.read_namespace; return ("ok", [types], prints) or ("err", exception, prints)."""
    import pydsdl
    prints = []
    def ph(path, line, text):
        prints.append((str(path), line, text))
    ph = handler_form(ph)
    try:
        r = pydsdl.read_namespace(root, list(lookups), print_output_handler=ph,
                                  allow_unregulated_fixed_port_id=allow_unregulated, **kw)
        return "ok", r, prints
    except BaseException as ex:  # noqa - the class of what escapes is exactly what is being observed
        if isinstance(ex, (KeyboardInterrupt, SystemExit)):
            raise
        return "err", ex, prints

def err_info(ex):
    import pydsdl
    return {"cls": type(ex).__name__, "ide": isinstance(ex, pydsdl.InvalidDefinitionError),
            "frontend": isinstance(ex, pydsdl.FrontendError),
            "path": str(getattr(ex, "path", None)) if getattr(ex, "path", None) is not None else None,
            "line": getattr(ex, "line", None), "text": str(ex)[:300]}
