"""Binding A for Sessions.tla: every history of calls is executed in a process of its own (forked from a parent that has
only imported pydsdl), and every call of every history must observe exactly what the same call observes alone."""
from __future__ import annotations
import json, os, shutil, sys, tempfile
from . import core, tlaval

_T = {1: "uint8 a\n", 2: "uint64[<=1] a\n", 3: "uint8 a\n", 4: "uint8 a\n", 5: "uint8 a\n", 6: "uint32[<=2] a\n"}
_K = {1: 1, 2: 1, 3: 5, 4: 1, 5: 1, 6: 1}

def variant_files(v: int) -> dict:
    """The same type names and versions in every variant; the content differs (layout - 2 and 6 are approximate twins -,
    constant value, deprecation and fields behind an unchanged extent, a faulty definition)."""
    dep = "@deprecated\n" if v == 4 else ""
    fs = {
        "dep/Thing.1.0.dsdl": dep + _T[v] + "uint8 K = %d\n@sealed\n" % _K[v],
        "ns/User.1.0.dsdl": dep + "dep.Thing.1.0 t\nuint8[<=dep.Thing.1.0.K + 1] arr\ndep.Thing.1.0[<=2] many\n@print dep.Thing.1.0.K\n"
                            + ("" if v == 5 else "@sealed\n"),
        "ns/Other.1.0.dsdl": "uint16 x\n" + ("uint16 y\n" if v == 4 else "") + "@extent 64\n",
        "ns/Svc.1.0.dsdl": "uint8 q\n@sealed\n---\nns.Other.1.0 o\n@sealed\n",
    }
    return fs

def _project_type(t, rel):
    import pydsdl
    def sec(c):
        delim = isinstance(c, pydsdl.DelimitedType)
        inner = c.inner_type
        return {"kind": type(inner).__name__ + ("/delimited" if delim else ""), "extent": c.extent,
                "bls": sorted(c.bit_length_set)[:40], "doc": c.doc,
                "fields": [(f.name, str(f.data_type), sorted(f.data_type.bit_length_set)[:40],
                            [x.name for x in f.data_type.fields] if isinstance(f.data_type, pydsdl.CompositeType) else None,
                            getattr(f.data_type, "capacity", None)) for f in c.fields],
                "consts": [(k.name, str(k.data_type), str(k.value)) for k in c.constants],
                "offsets": [(f.name, sorted(o)[:40]) for f, o in c.iterate_fields_with_offsets()]}
    out = {"name": t.full_name, "ver": [t.version.major, t.version.minor], "dep": t.deprecated, "port": t.fixed_port_id,
           "path": rel(t.source_file_path), "root": rel(t.source_file_path_to_root), "str": str(t), "hash_eq_self": t == t}
    if isinstance(t, pydsdl.ServiceType):
        out["parts"] = [sec(t.request_type), sec(t.response_type)]
    else:
        out["parts"] = [sec(t)]
    return out

_SHARED = {}      # (role, directory) -> the list object that the "shared" calls of this process pass

def _arg(call, role, dirs):
    """The directory argument of a call: a fresh list of strings, or the process-wide list of Path objects for these directories."""
    from pathlib import Path
    if call.get("args", "fresh") != "shared":
        return list(dirs)
    return _SHARED.setdefault((role,) + tuple(dirs), [Path(x) for x in dirs])

def _do_call(call, base):
    import pydsdl
    v, d, loc, api = call["var"], call["dep"], call["loc"], call["api"]
    root = os.path.join(base, "same" if loc == "same" else "copy")
    # target namespace of variant v, lookup namespace of variant d; "same": one pair of directories rewritten in place;
    # "copy": a directory per variant of each namespace (an unmodified target file can meet another lookup directory)
    nsdir = os.path.join(root, "ns") if loc == "same" else os.path.join(root, "t%d" % v, "ns")
    depdir = os.path.join(root, "dep") if loc == "same" else os.path.join(root, "l%d" % d, "dep")
    for target, var, prefix in ((nsdir, v, "ns/"), (depdir, d, "dep/")):
        if loc == "same" or not os.path.isdir(target):
            shutil.rmtree(target, ignore_errors=True)           # rewritten in place: same paths, new content
            for relp, text in variant_files(var).items():
                if relp.startswith(prefix):
                    p = os.path.join(target, relp[len(prefix):])
                    os.makedirs(os.path.dirname(p), exist_ok=True)
                    with open(p, "w") as f:
                        f.write(text)
    prints = []
    def ph(path, line, text):
        prints.append((_rel(path), line, text))
    def _rel(p):      # paths as <namespace>/<rest>, whatever directory the namespace lives in
        p = str(p)
        for dpath, name in ((nsdir, "ns"), (depdir, "dep")):
            if p == dpath or p.startswith(dpath + os.sep):
                return name + p[len(dpath):]
        return os.path.relpath(p, root)
    try:
        if api == "namespace":
            direct, trans = pydsdl.read_namespace(nsdir, _arg(call, "lk", [depdir]), print_output_handler=ph), None
        elif api == "files":
            direct, trans = pydsdl.read_files([os.path.join(nsdir, "User.1.0.dsdl")], _arg(call, "rt", [nsdir]), _arg(call, "lk", [depdir]),
                                              print_output_handler=ph)
        else:
            direct, trans = pydsdl.read_files([os.path.join(depdir, "Thing.1.0.dsdl"), os.path.join(nsdir, "User.1.0.dsdl"),
                                               os.path.join(nsdir, "Svc.1.0.dsdl")], _arg(call, "rt", [nsdir, depdir]), _arg(call, "lk0", []),
                                              print_output_handler=ph)
        return {"ok": True, "direct": [_project_type(t, _rel) for t in direct],
                "transitive": None if trans is None else [_project_type(t, _rel) for t in trans], "prints": prints}
    except pydsdl.FrontendError as ex:
        return {"ok": False, "cls": type(ex).__name__, "path": None if ex.path is None else _rel(ex.path),
                "line": ex.line, "prints": prints}
    except Exception as ex:      # noqa - the class is the observation
        return {"ok": False, "cls": "RAW:" + type(ex).__name__, "text": str(ex)[:200], "prints": prints}

def run_history(calls):
    """Execute the calls in a forked child (fresh module state); returns the list of observations."""
    r, w = os.pipe()
    pid = os.fork()
    if pid == 0:
        code = 0
        try:
            os.close(r)
            base = tempfile.mkdtemp(prefix="verif-sess-")
            try:
                obs = [_do_call(c, base) for c in calls]
            finally:
                shutil.rmtree(base, ignore_errors=True)
            with os.fdopen(w, "w") as f:
                json.dump(obs, f)
        except BaseException as ex:      # noqa
            code = 3
            try:
                sys.stderr.write("session child failed: %r\n" % (ex,))
            except Exception:
                pass
        finally:
            os._exit(code)
    os.close(w)
    with os.fdopen(r) as f:
        data = f.read()
    _, status = os.waitpid(pid, 0)
    if status != 0 or not data:
        raise RuntimeError("session child exited with status %s" % status)
    return json.loads(data)

_ALONE = {}
def alone(call):
    key = json.dumps(call, sort_keys=True)
    if key not in _ALONE:
        _ALONE[key] = run_history([call])[0]
    return _ALONE[key]

@core.safe
def worker(arg):
    block, mod = arg[0], arg[1]
    only_shared = len(arg) > 2 and arg[2]        # C10: histories in which the calls share directory-argument objects
    st = tlaval.parse_state_block(block)
    hist = [dict(c) for c in st["case"]]
    if len(hist) < 2:
        return None
    if len(hist) >= 3 and not core.sampled(block, mod):
        return None
    if only_shared and (sum(1 for c in hist if c["args"] == "shared") < 2 or core.pick(block, "c10sess", only_shared) != 0):
        return None
    import pydsdl  # noqa - imported in the parent of the forked children, like an application would have
    obs = run_history(hist)
    diff = []
    for n, (c, o) in enumerate(zip(hist, obs)):
        a = alone(c)
        if o != a:
            keys = [k for k in set(o) | set(a) if o.get(k) != a.get(k)]
            what = {}
            for k in keys[:3]:
                what[k] = (str(o.get(k))[:300], str(a.get(k))[:300])
            diff.append(("call %d of the history observes something else than the same call alone" % (n + 1), tlaval.to_json(c), what))
            break
    r = {"nt": len({json.dumps(c, sort_keys=True) for c in hist}) > 1, "key": core.jhash(hist)}
    if diff:
        r["bad"] = {"kind": "session", "case": tlaval.to_json(hist), "diff": diff}
    return r
