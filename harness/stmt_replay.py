"""Binding A for Statements.tla: render abstract line sequences as DSDL text (with formatting variants), read them with
the real pydsdl and compare the projection of the result with the specification's `out`."""
from __future__ import annotations
import random
from . import core, tlaval, dsdlio

SYNTAX_FORMS = ["uint8", "@@@", "uint8 a b", "= 3", "'abc", "@print 1 +", "uint8[ a", "  uint8 indented", "@sealed extra ]"]

# names of the constant "K" of the identifier-scope alphabet: legal attribute names that begin with a type keyword included
KNAMES = ["K", "boolean", "bytes_total", "uint8x", "float16_", "utf8_text", "int8x", "void1x", "bool_", "truncated_", "saturatedK", "byte_"]

def stmt_text(k: str, i: int, rng: random.Random, fancy: bool, K: str = "K") -> str:
    sp = (lambda: rng.choice([" ", "  ", "\t", " \t "])) if fancy else (lambda: " ")
    osp = (lambda: rng.choice(["", " ", "  "])) if fancy else (lambda: " ")
    if k == "field":
        ty = rng.choice(["uint8", "saturated" + sp() + "uint8"]) if fancy else "uint8"
        return ty + sp() + "f%d" % i
    if k == "const":
        val = rng.choice([str(i), "0x%x" % i, "%d + 0" % i, "0b%s" % bin(i)[2:], "%d * 10 ** -1 * 10" % i, "%d / 3 * 3" % i,
                          "%d ** 1" % i]) if fancy else str(i)
        return "uint16" + sp() + "C%d" % i + osp() + "=" + osp() + val
    if k == "kdef":         # the constant named K; its value is the (abstract) line it stands on
        return "uint8" + sp() + K + osp() + "=" + osp() + (rng.choice([str(i), "'\\u%04x'" % i, '"\\U%08x"' % i]) if fancy else str(i))
    if k == "kuse":         # a constant whose initialiser reads K: value = 1000 * (line of the K it denotes) + own line
        return "uint16" + sp() + "U%d" % i + osp() + "=" + osp() + rng.choice([K + " * 1000 + %d" % i, "%d + 1000 * " % i + K, K + "*1000+%d" % i] if fancy else [K + " * 1000 + %d" % i])
    if k == "kprint":
        return "@print" + sp() + K + " * 1000 + %d" % i
    if k == "pad":
        return "void%d" % i
    if k == "union":
        return "@union"
    if k == "deprecated":
        return "@deprecated"
    if k == "sealed":
        return "@sealed"
    if k == "extent":
        return "@extent" + sp() + (rng.choice(["512", "64 * 8", "0x200"]) if fancy else "512")
    if k == "assert":
        return "@assert" + sp() + "true"
    if k == "print":
        return "@print" + sp() + str(i)
    if k == "mlprint":      # the string literal spans two physical lines
        return "@print" + sp() + str(i) + " + {'a" + rng.choice(["\n", "\r\n"]) + "b'}.count - 1"
    if k == "bprint":
        return "@print"
    if k == "sprint":       # the printed VALUE is a string: empty, or with line breaks in it
        return "@print" + sp() + rng.choice(["''", '""', "'a\\nb'", '"\\n"', "'x\\r\\ny\\n'", "'' + ''",
                                              # raw characters that str.splitlines() takes for line boundaries but that end no line
                                              "'a\x0cb'", "'\x0b'", '"\x1c\x1d\x1e"', "'\u0085'", "'a\u2028b\u2029'"])
    if k == "esprint":      # escaped line breaks inside a literal on ONE physical line
        lit = rng.choice(["'a\\nb'", '"a\\r\\nb\\n"', "'\\n\\n\\n'", "'a\\rb'"])
        return "@print" + sp() + str(i) + " + {" + lit + "}.count - 1"
    if k == "marker":
        return rng.choice(["---", "----", "-----------"]) if fancy else "---"
    if k == "offq":
        return "@assert" + sp() + "_offset_.count" + osp() + ">=" + osp() + "1"
    if k == "badconst":
        return "uint8" + sp() + "X%d" % i + osp() + "=" + osp() + "300"
    if k == "assertfalse":
        return "@assert" + sp() + "false"
    if k == "undef":
        # a fault met while the expression is evaluated: an undefined identifier, operator or attribute
        return "@assert" + sp() + (rng.choice(["nosuch%d" % i, "%d + true" % i, "{%d} < 2" % i, "{%d}.nosuch" % i, "!%d" % i]) if fancy else "nosuch%d" % i)
    if k == "syntax":
        return rng.choice(SYNTAX_FORMS)
    raise ValueError(k)

def phys_starts(lines):
    """First physical line (1-based) of every abstract line."""
    starts, p = [], 1
    for l in lines:
        starts.append(p)
        p += 2 if l["k"] == "mlprint" else 1
    return starts

def render(lines, seed: int, variant: int) -> str:
    """variant 0: canonical (LF, single blanks); 1: CRLF + runs of blanks/tabs + trailing blanks; 2: LF fancy."""
    rng = random.Random(seed * 31 + variant)
    fancy = variant > 0
    eol = "\r\n" if variant == 1 else "\n"
    kname = rng.choice(KNAMES) if fancy else "K"
    out = []
    for idx, l in enumerate(lines):
        i = idx + 1
        k, c = l["k"], l["c"]
        if k == "blank":
            s = rng.choice([" ", "\t", "   ", " \t"])
        elif k == "empty":
            s = ""
        else:
            s = stmt_text(k, i, rng, fancy, kname)
            if fancy and rng.random() < 0.5 and k != "syntax":
                s += rng.choice([" ", "  ", "\t"])          # trailing blanks on a non-empty line
        if c:
            if s and not s.endswith((" ", "\t")):
                s += rng.choice(["", " ", "  "]) if fancy and k != "empty" else (" " if s else "")
            s += rng.choice(["# c%d", "#c%d"]) % i if fancy else "# c%d" % i
        out.append(s)
    return eol.join(out)

# ---- expected projection from the specification's `out` ---------------------------------------------------------
def expected(out):
    if not out["ok"]:
        return {"ok": False, "line": out["line"], "prints": [int(x) for x in out["prints"]],
                "refs": sorted((r["i"], r["ref"]) for r in out["refs"] if r["k"] == "kprint")}   # constants are not observable without a model
    parts = []
    for p in out["parts"]:
        parts.append({"union": p["union"], "mode": p["mode"], "doc": [int(x) for x in p["doc"]],
                      "fields": [(f["k"], f["i"], [int(x) for x in f["doc"]]) for f in p["fields"]],
                      "consts": [(c["i"], [int(x) for x in c["doc"]]) for c in p["consts"]]})
    return {"ok": True, "service": out["service"], "dep": out["dep"], "parts": parts,
            "prints": [int(x) for x in out["prints"]], "refs": sorted((r["i"], r["ref"]) for r in out["refs"])}

def _doc_ids(doc: str):
    if doc == "":
        return []
    ids = []
    for ln in doc.split("\n"):      # exact: a stray blank or carriage return in a doc comment is a difference
        if ln.startswith("c") and ln[1:].isdigit() and ln == "c%d" % int(ln[1:]):
            ids.append(int(ln[1:]))
        else:
            ids.append(("?", ln))
    return ids

def project(status, res, prints, file_path: str, to_abs=lambda x: x, anytext=()):
    """Projection of the real result to the abstract form (physical line numbers -> abstract line indices)."""
    import pydsdl
    pr = []
    refs = []
    for (path, line, text) in prints:
        a = to_abs(line)
        if text.strip().isdigit() and int(text) >= 1000 and int(text) % 1000 == a and path == file_path:   # a kprint line
            refs.append((a, int(text) // 1000))
            pr.append(a)
            continue
        if a in anytext and path == file_path:      # a directive whose text is not a number: only its delivery and location count
            pr.append(a)
            continue
        pr.append(a if (text.strip() == str(a) and path == file_path) else ("?", path, line, text))
    if status == "err":
        info = dsdlio.err_info(res)
        return {"ok": False, "line": to_abs(info["line"]) if info["line"] else 0, "prints": pr, "refs": sorted(refs), "ide": info["ide"], "path": info["path"],
                "cls": info["cls"], "text": info["text"]}
    if len(res) != 1:
        return {"ok": "?", "n": len(res)}
    t = res[0]
    comps = [t.request_type, t.response_type] if isinstance(t, pydsdl.ServiceType) else [t]
    parts = []
    for cmp in comps:
        delimited = isinstance(cmp, pydsdl.DelimitedType)
        inner = cmp.inner_type if delimited else cmp
        fields = []
        for f in cmp.fields:
            if isinstance(f, pydsdl.PaddingField):
                fields.append(("pad", f.data_type.bit_length, _doc_ids(f.doc)))
            elif f.name.startswith("f") and str(f.data_type) == "saturated uint8":
                fields.append(("field", int(f.name[1:]), _doc_ids(f.doc)))
            else:
                fields.append(("?", str(f), f.doc))
        consts = []
        for c in cmp.constants:
            if c.name.startswith("C") and str(c.data_type) == "saturated uint16" and c.value.native_value == int(c.name[1:]):
                consts.append((int(c.name[1:]), _doc_ids(c.doc)))
            elif c.name in KNAMES and str(c.data_type) == "saturated uint8":
                consts.append((int(c.value.native_value), _doc_ids(c.doc)))
            elif c.name.startswith("U") and str(c.data_type) == "saturated uint16" and c.value.native_value % 1000 == int(c.name[1:]):
                consts.append((int(c.name[1:]), _doc_ids(c.doc)))
                refs.append((int(c.name[1:]), int(c.value.native_value) // 1000))
            else:
                consts.append(("?", str(c), c.doc))
        mode = "extent" if delimited else "sealed"
        if delimited and cmp.extent != 512:
            mode = "extent=%d" % cmp.extent
        parts.append({"union": isinstance(inner, pydsdl.UnionType), "mode": mode, "doc": _doc_ids(cmp.doc),
                      "fields": fields, "consts": consts})
    return {"ok": True, "service": isinstance(t, pydsdl.ServiceType), "dep": bool(t.deprecated), "parts": parts,
            "prints": pr, "refs": sorted(refs)}

def compare(exp, got, file_path: str):
    diff = []
    if exp["ok"] != got.get("ok"):
        return [("accepted", got.get("ok"), exp["ok"], got.get("cls"), got.get("text"))]
    if not exp["ok"]:
        if not got["ide"]:
            diff.append(("error class is not InvalidDefinitionError", got["cls"], got["text"]))
        if got["line"] != exp["line"]:
            diff.append(("error line", got["line"], exp["line"]))
        if got["path"] != file_path:
            diff.append(("error path", got["path"], file_path))
        if got["prints"] != exp["prints"]:
            diff.append(("prints before the error", got["prints"], exp["prints"]))
        elif got["refs"] != exp["refs"]:
            diff.append(("constant denoted by an identifier (line, line of the definition it resolved to)", got["refs"], exp["refs"]))
        return diff
    for key in ("service", "dep", "prints", "refs"):
        if exp[key] != got[key]:
            diff.append((key, got[key], exp[key]))
    if len(exp["parts"]) != len(got["parts"]):
        diff.append(("parts", len(got["parts"]), len(exp["parts"])))
    else:
        for n, (e, g) in enumerate(zip(exp["parts"], got["parts"])):
            for key in ("union", "mode", "doc", "fields", "consts"):
                if e[key] != g[key]:
                    diff.append(("part %d %s" % (n + 1, key), g[key], e[key]))
    return diff

def canonical_text(t) -> str:
    """Render a model back to canonical DSDL (used for the re-read fixed point of C03)."""
    import pydsdl
    comps = [t.request_type, t.response_type] if isinstance(t, pydsdl.ServiceType) else [t]
    chunks = []
    for n, cmp in enumerate(comps):
        ls = []
        delimited = isinstance(cmp, pydsdl.DelimitedType)
        inner = cmp.inner_type if delimited else cmp
        for d in (cmp.doc.split("\n") if cmp.doc else []):
            ls.append("# " + d)
        if n == 0 and t.deprecated:
            ls.append("@deprecated")
        if isinstance(inner, pydsdl.UnionType):
            ls.append("@union")
        for a in list(cmp.fields) + list(cmp.constants):
            ls.append(str(a))
            for d in (a.doc.split("\n") if a.doc else []):
                ls.append("# " + d)
        ls.append("@extent %d" % cmp.extent if delimited else "@sealed")
        chunks.append("\n".join(ls))
    return "\n---\n".join(chunks) + "\n"

def expected_log(out):
    log = []
    for e in out["log"]:
        k = e["e"]
        if k == "hdr":
            log.append(("hdr", tuple(e["doc"])))
        elif k == "commit":
            log.append(("commit", e["i"], tuple(e["doc"])))
        elif k == "drop":
            log.append(("drop", tuple(e["doc"])))
        elif k == "stmt":
            log.append(("stmt", e["c"], e["i"]))
        elif k == "finalize":
            log.append(("finalize", bool(e["dep"]), tuple((x["nf"], x["nc"], bool(x["union"]), x["mode"]) for x in e["sections"])))
    return log

def project_events(events, to_abs=lambda x: x):
    """Hook events H1 -> the abstract steps of Statements.tla (no-op flushes omitted)."""
    log, problems = [], []
    j = 0
    evs = [e for e in events if e["ev"] in ("flush", "commit", "stmt", "finalize")]
    while j < len(evs):
        e = evs[j]
        if e["ev"] == "flush":
            if e["header"]:
                log.append(("hdr", tuple(_doc_ids(e["comment"]))))
            else:
                nxt = evs[j + 1] if j + 1 < len(evs) else None
                if nxt is None or nxt["ev"] != "commit":
                    problems.append(("attribute flush without a commit step", e))
                else:
                    j += 1
                    if nxt["pending"]:
                        log.append(("commit", to_abs(e["attr_line"]), tuple(_doc_ids(nxt["doc"]))))
                        if nxt["doc"] != e["comment"]:
                            problems.append(("doc handed to the builder differs from the parser's comment", e))
                    elif e["comment"] != "":
                        log.append(("drop", tuple(_doc_ids(e["comment"]))))
        elif e["ev"] == "commit":
            if e["pending"]:      # a commit that did not come from a parser flush (_queue_attribute flushing a predecessor)
                problems.append(("an attribute was committed outside a parser flush", e))
        elif e["ev"] == "stmt":
            log.append(("stmt", e["kind"], to_abs(e["line"])))
        elif e["ev"] == "finalize":
            if e["pending"]:
                problems.append(("an attribute is still pending at finalization", e))
            secs = []
            for nf, nc, un, mode in e["sections"]:
                m = "sealed" if mode == "sealed" else ("extent" if mode.startswith("delimited") else "none")
                secs.append((nf, nc, bool(un), m))
            log.append(("finalize", bool(e["deprecated"]), tuple(secs)))
        j += 1
    return log, problems

def run_case(lines, out, seed: int, variants, roundtrip: bool):
    """Returns list of diffs (empty = conforming)."""
    exp = expected(out)
    bad = []
    structures = []
    starts = phys_starts(lines)
    def to_abs(pl):
        return starts.index(pl) + 1 if pl in starts else ("?physical line", pl)
    for v in variants:
        text = render(lines, seed, v)
        with dsdlio.Tree({"ns/A.1.0.dsdl": text}, "st") as tr:
            fp = str(tr.path("ns/A.1.0.dsdl"))
            from pydsdl import _verif_trace
            _verif_trace.drain()
            status, res, prints = dsdlio.read_ns(tr.path("ns"))
            events = _verif_trace.drain()
            anytext = {n_ + 1 for n_, l_ in enumerate(lines) if l_["k"] in ("bprint", "sprint")}
            got = project(status, res, prints, fp, to_abs, anytext)
            d = compare(exp, got, fp)
            if not d:
                # Binding B: the recorded steps are the ones the specification prescribes
                glog, problems = project_events(events, to_abs)
                elog = expected_log(out)
                if not events and elog:
                    d = [("hooks-silent",)]          # no event at all: the instrumentation is not firing (machinery, not a verdict)
                elif glog != elog:
                    n = next((i for i, (a, b) in enumerate(zip(glog, elog)) if a != b), min(len(glog), len(elog)))
                    d = [("recorded steps diverge from the specification at step %d" % (n + 1), [list(map(str, x)) for x in glog[n:n + 2]],
                          [list(map(str, x)) for x in elog[n:n + 2]])]
                elif problems:
                    d = [(p[0], str(p[1])[:200]) for p in problems[:3]]
            if not d and status == "ok" and v == variants[0]:
                # the model is a value: what its accessors hand out can be changed without changing the model
                t0_ = res[0]
                for obj in ([t0_.request_type, t0_.response_type] if hasattr(t0_, "request_type") else [t0_]):
                    for acc in ("fields", "constants", "attributes", "fields_except_padding"):
                        try:
                            getattr(obj, acc).clear()
                        except (AttributeError, TypeError):
                            pass
                got2 = project(status, res, prints, fp, to_abs, anytext)
                if got2 != got:
                    d = [("the model changed after lists returned by its accessors were cleared", str(got2)[:200], str(got)[:200])]
            if d:
                bad.append({"variant": v, "text": text, "diff": d})
            elif roundtrip and status == "ok":
                canon = canonical_text(res[0])
                with dsdlio.Tree({"ns/A.1.0.dsdl": canon}, "rt") as tr2:
                    s2, r2, p2 = dsdlio.read_ns(tr2.path("ns"))
                    if s2 != "ok":
                        bad.append({"variant": v, "text": text, "canonical": canon,
                                    "diff": [("canonical rendering rejected", str(r2)[:200])]})
                    else:
                        g2 = project(s2, r2, [], "")
                        g1 = dict(got)
                        g1["prints"] = g2["prints"] = []
                        g1["refs"] = g2["refs"] = []       # the canonical rendering holds values, not identifiers
                        if not (r2[0] == res[0] and hash(r2[0]) == hash(res[0])) or g1 != g2:
                            bad.append({"variant": v, "text": text, "canonical": canon,
                                        "diff": [("re-read of the canonical rendering differs", g2, g1)]})
    return bad

@core.safe
def worker(arg):
    block, seed, nvariants, roundtrip, sample_mod = arg
    st = tlaval.parse_state_block(block)
    lines, out = st["lines"], st["out"]
    if len(lines) == 0:
        return None        # zero lines is not a text: the empty text is the single empty line
    h = hash(block)
    if sample_mod > 1 and len(lines) >= 4 and (h % sample_mod) != 0:
        return None
    variants = [0] + [1 + ((h >> 4) + j) % 2 for j in range(nvariants - 1)]
    variants = sorted(set(variants))
    bad = run_case(lines, out, seed + (h % 1000), variants, roundtrip)
    nt = bool(out["ok"] and any(p["fields"] or p["consts"] for p in out["parts"])) or (not out["ok"] and out["line"] > 0)
    res = {"nt": nt, "key": core.jhash(tlaval.to_json(lines)), "n": len(variants), "ok": bool(out["ok"]),
           "errline": (0 if out["ok"] else out["line"])}
    if bad:
        res["bad"] = {"kind": "statements", "case": tlaval.to_json(lines), "expected": tlaval.to_json(out),
                      "diff": bad[0]["diff"], "text": bad[0]["text"], "variant": bad[0]["variant"],
                      "all": bad[:3]}
    return res

def run_config(ctx, cfg: str, nvariants: int, roundtrip: bool, sample_mod: int = 1, focus=None):
    """Run TLC on MC_Statements/<cfg>, replay every dumped state. focus: optional filter on diff entries."""
    from . import tlc
    res = tlc.run("MC_Statements", cfg, dump=True, tag="stmt", timeout=3000)
    ctx.add_tlc(res, cfg)
    if res.violated:
        ctx.spec_violation(res, cfg)
        tlc.cleanup(res)
        return
    blocks = tlaval.split_dump_blocks(res.dump_path)
    tlc.cleanup(res)
    results = core.pmap(worker, [(b, ctx.seed, nvariants, roundtrip, sample_mod) for b in blocks], chunksize=200)
    sampled = False
    silent = 0
    for r in results:
        if r is None:
            continue
        if "harness_exception" in r:
            lf = core.library_failure(r)
            if lf is not None:
                ctx.violation(lf)
                continue
            raise tlc.MachineryError("replay worker failed: %s\n%s" % (r["harness_exception"], r["tb"]))
        ctx.count(r["n"])
        ctx.traces += 1
        if r["nt"]:
            ctx.nontriv(cfg[:8] + r["key"])
        if "bad" in r and r["bad"]["diff"] and r["bad"]["diff"][0][0] == "hooks-silent":
            silent += 1
            continue
        if "bad" in r:
            b = r["bad"]
            if focus is not None:
                b = focus(b)
                if b is None:
                    continue
            ctx.violation(b)
        elif not sampled and r["nt"] and r["ok"]:
            sampled = True
    if silent:
        raise tlc.MachineryError("the statement hooks did not fire in %d executions whose observable results were as specified: "
                                 "is OPENCYPHAL_PYDSDL_VERIF instrumentation present in %s?" % (silent, core.REPO))
    return results
