"""Binding A for Floats.tla: every state (format, bit pattern, perturbation in eighths of an ulp, cast mode) is replayed
into pydsdl.serialize / deserialize on a structure holding one float field between sub-byte neighbours."""
from __future__ import annotations
import math
from fractions import Fraction
from . import core, tlaval, dsdlio

MB = {16: 10, 32: 23}
_TYPES = {}

def float_type(f: int, mode: str):
    key = (f, mode)
    if key not in _TYPES:
        ty = ("truncated " if mode == "t" else "saturated ") + "float%d" % f
        with dsdlio.Tree({"ns/X.1.0.dsdl": "uint3 a\n%s x\nbool b\n@sealed\n" % ty}, "fl") as tr:
            status, res, _ = dsdlio.read_ns(tr.path("ns"))
        _TYPES[key] = res[0]
    return _TYPES[key]

def pattern_int(f: int, p) -> int:
    return (p["s"] << (f - 1)) | (p["ef"] << MB[f]) | p["fr"]

def value_of(x):
    """Abstract value of FloatOps -> Python float (exact: significands stay below 2**27)."""
    if x["k"] == "nan":
        return math.nan
    if x["k"] == "inf":
        return -math.inf if x["s"] else math.inf
    v = math.ldexp(x["m"], x["e"])
    assert Fraction(v) == Fraction(x["m"]) * Fraction(2) ** x["e"], x
    return -v if x["s"] else v

def same_float(a: float, b: float) -> bool:
    if math.isnan(a) or math.isnan(b):
        return math.isnan(a) and math.isnan(b)
    return a == b and math.copysign(1.0, a) == math.copysign(1.0, b)

@core.safe
def worker(block):
    import pydsdl
    st = tlaval.parse_state_block(block)
    if st["ph"] != 2:
        return None
    c, out = st["case"], st["out"]
    f, mode = c["f"], c["mode"]
    T = float_type(f, mode)
    x = value_of(out["x"])
    forms = [x]
    if out["x"]["k"] == "fin" and x == int(x) and abs(x) < 2 ** 53 and not (x == 0 and out["x"]["s"]):
        forms.append(int(x))                    # an integer given as a Python int encodes like the float
        if x in (0.0, 1.0):
            forms.append(bool(x))
    if out["x"]["k"] == "fin" and abs(x) > 1e300 or (out["x"]["k"] == "fin" and f == 32 and c["kind"] == "big"):
        pass
    diff = []
    nbytes = (3 + f + 1 + 7) // 8
    for v in forms:
        got = pydsdl.serialize(T, {"a": 5, "x": v, "b": True})
        word = int.from_bytes(got, "little")
        if len(got) != nbytes or (word & 7) != 5 or ((word >> (3 + f)) & 1) != 1 or (word >> (4 + f)) != 0:
            diff.append(("neighbouring fields / padding disturbed", repr(v), got.hex()))
            continue
        pat = (word >> 3) & ((1 << f) - 1)
        if c["kind"] == "nan":
            ef_all = (1 << (f - 1 - MB[f])) - 1
            if ((pat >> MB[f]) & ef_all) != ef_all or (pat & ((1 << MB[f]) - 1)) == 0:
                diff.append(("NaN does not encode to a NaN pattern", repr(v), hex(pat)))
        elif pat != pattern_int(f, out["pat"]):
            diff.append(("encoded pattern", repr(v), hex(pat), "expected", hex(pattern_int(f, out["pat"])), tlaval.to_json(out["pat"])))
    # deserialization of the base pattern (for the special kinds: the expected output pattern)
    base = {"s": c["s"], "ef": c["ef"], "fr": c["fr"]} if c["kind"] == "near" else out["pat"]
    want = value_of(out["dec"]) if c["kind"] == "near" else \
        (math.nan if c["kind"] == "nan" else None)
    word = 5 | (pattern_int(f, base) << 3) | (1 << (3 + f))
    back = pydsdl.deserialize(T, word.to_bytes(nbytes, "little"))
    if c["kind"] == "near" or c["kind"] == "nan":
        if not isinstance(back["x"], float) or not same_float(back["x"], want):
            diff.append(("decoded value", hex(pattern_int(f, base)), repr(back["x"]), repr(want)))
    if back["a"] != 5 or back["b"] is not True:
        diff.append(("neighbouring fields decoded wrongly", repr(back)))
    r = {"nt": c["kind"] != "near" or c["j"] != 0, "key": core.jhash(tlaval.to_json(c))}
    if diff:
        r["bad"] = {"kind": "float", "case": tlaval.to_json(c), "diff": diff[:4], "expected": tlaval.to_json(out)}
    return r
