"""Run TLC (and SANY) and parse its statistics. Machinery failures raise MachineryError (exit code 2)."""
from __future__ import annotations
import os, re, shutil, subprocess, time, uuid
from pathlib import Path

VERIF = Path(__file__).resolve().parent.parent
SPEC = VERIF / "spec"
WORK = VERIF / ".work"
JAR = "/opt/veriftools/tla/tla2tools.jar"

class MachineryError(Exception):
    pass

def workdir(tag: str) -> Path:
    d = WORK / ("%s-%d-%s" % (tag, os.getpid(), uuid.uuid4().hex[:8]))
    d.mkdir(parents=True, exist_ok=True)
    return d

def _classpath() -> str:
    cm = "/opt/veriftools/tla/CommunityModules-deps.jar"
    cps = [JAR]
    for c in (cm, "/opt/veriftools/tla/CommunityModules.jar"):
        if os.path.exists(c):
            cps.append(c)
    return ":".join(cps)

_STATS = re.compile(r"(\d+) states generated, (\d+) distinct states found, (\d+) states left on queue")
_SIMSTATS = re.compile(r"(\d+) states checked")
_DEPTH = re.compile(r"The depth of the complete state graph search is (\d+)")
_VIOL_INV = re.compile(r"Error: Invariant (\S+) is violated")
_VIOL_ACT = re.compile(r"Error: Action property (\S+) is violated")
_VIOL_TMP = re.compile(r"Error: Temporal properties were violated")

class TLCResult:
    def __init__(self):
        self.rc = None
        self.out = ""
        self.generated = 0
        self.distinct = 0
        self.depth = 0
        self.wall = 0.0
        self.violated = []      # names of violated invariants/properties
        self.dump_path = None
        self.cmd = ""
        self.coverage = {}      # action name -> (distinct, total) when -coverage was requested
        self.ok = False

    def printed(self):
        """Lines printed by PrintT/Print that are not TLC chatter: best effort."""
        return self.out.splitlines()

def run(module: str, cfg: str, *, workers: int = 16, dump: bool = False, dump_dot: bool = False,
        simulate: str | None = None, depth: int | None = None, seed: int | None = None, coverage: bool = False,
        timeout: int = 1200, env: dict | None = None, tag: str = "tlc", extra: list | None = None,
        java_opts: list | None = None, keep: bool = False, expect_violation: bool = False,
        spec_dir: Path | None = None) -> TLCResult:
    """Run TLC on spec/<module>.tla with spec/<cfg>. Returns TLCResult; raises MachineryError on crashes."""
    sd = Path(spec_dir) if spec_dir else SPEC
    wd = workdir(tag)
    res = TLCResult()
    cmd = ["java", "-XX:+UseParallelGC", "-Xmx8g", "-Xss512m", "-Djava.io.tmpdir=%s" % wd]
    cmd += java_opts or []
    cmd += ["-cp", _classpath(), "tlc2.TLC", "-workers", str(workers), "-metadir", str(wd / "meta"),
            "-noGenerateSpecTE", "-config", cfg]
    if dump:
        res.dump_path = str(wd / "states")
        cmd += ["-dump", res.dump_path]
        res.dump_path += ".dump"
    if dump_dot:
        res.dump_path = str(wd / "graph")
        cmd += ["-dump", "dot,actionlabels", res.dump_path]
        res.dump_path += ".dot"
    if simulate is not None:
        cmd += ["-simulate", simulate]
    if depth is not None:
        cmd += ["-depth", str(depth)]
    if seed is not None:
        cmd += ["-seed", str(seed)]
    if coverage:
        cmd += ["-coverage", "1"]
    cmd += extra or []
    cmd += [module]
    e = dict(os.environ)
    e.pop("JAVA_TOOL_OPTIONS", None)
    if env:
        e.update(env)
    res.cmd = " ".join(cmd)
    t0 = time.time()
    try:
        p = subprocess.run(cmd, cwd=str(sd), env=e, stdout=subprocess.PIPE, stderr=subprocess.STDOUT,
                           timeout=timeout, text=True, errors="replace")
    except subprocess.TimeoutExpired as ex:
        subprocess.run(["pkill", "-f", str(wd)], check=False)
        if simulate is not None:
            # Simulation is open-ended; a timeout is the normal way to end it.
            res.out = (ex.stdout or "") if isinstance(ex.stdout, str) else (ex.stdout or b"").decode("utf8", "replace")
            res.rc = 0
            res.wall = time.time() - t0
            res.workdir = wd
            _parse(res)
            res.ok = not res.violated
            return res
        shutil.rmtree(wd, ignore_errors=True)
        raise MachineryError("TLC timed out after %d s: %s" % (timeout, res.cmd))
    res.wall = time.time() - t0
    res.rc = p.returncode
    res.out = p.stdout
    res.workdir = wd
    _parse(res)
    if res.rc != 0 and not res.violated:
        tail = "\n".join(res.out.splitlines()[-40:])
        if not keep:
            shutil.rmtree(wd, ignore_errors=True)
        raise MachineryError("TLC failed (rc=%s) on %s/%s:\n%s" % (res.rc, module, cfg, tail))
    res.ok = not res.violated
    return res

def _parse(res: TLCResult) -> None:
    for m in _STATS.finditer(res.out):
        res.generated, res.distinct = int(m.group(1)), int(m.group(2))
    m = _DEPTH.search(res.out)
    if m:
        res.depth = int(m.group(1))
    if res.generated == 0:
        ms = list(_SIMSTATS.finditer(res.out))
        if ms:
            res.generated = res.distinct = int(ms[-1].group(1))
    res.violated = _VIOL_INV.findall(res.out) + _VIOL_ACT.findall(res.out)
    if _VIOL_TMP.search(res.out):
        res.violated.append("<temporal>")
    if "Error: Deadlock reached" in res.out:
        res.violated.append("<deadlock>")
    if re.search(r"Error: The first argument of Assert evaluated to FALSE|Assumption .* is false", res.out):
        res.violated.append("<assert>")
    # coverage: lines like "<Action line 12, col 1 to line 14, col 20 of module X>: 12:34"
    for m in re.finditer(r"^<(\w+) line \d+, col \d+ to line \d+, col \d+ of module (\w+)>: (\d+):(\d+)", res.out, re.M):
        name = m.group(1)
        d, t = int(m.group(3)), int(m.group(4))
        od, ot = res.coverage.get(name, (0, 0))
        res.coverage[name] = (od + d, ot + t)

def cleanup(res: TLCResult) -> None:
    wd = getattr(res, "workdir", None)
    if wd:
        shutil.rmtree(wd, ignore_errors=True)

def sany(module: str, spec_dir: Path | None = None) -> None:
    sd = Path(spec_dir) if spec_dir else SPEC
    p = subprocess.run(["java", "-cp", _classpath(), "tla2sany.SANY", module], cwd=str(sd),
                       stdout=subprocess.PIPE, stderr=subprocess.STDOUT, text=True, timeout=300)
    if p.returncode != 0 or "Semantic errors" in p.stdout or "Parse Error" in p.stdout or "Fatal errors" in p.stdout:
        raise MachineryError("SANY rejected %s:\n%s" % (module, "\n".join(p.stdout.splitlines()[-30:])))

def trace_excerpt(res: TLCResult, n: int = 60) -> str:
    lines = res.out.splitlines()
    for i, l in enumerate(lines):
        if l.startswith("Error:"):
            return "\n".join(lines[i:i + n])
    return "\n".join(lines[-n:])
