"""Convert the bit reader / writer hook events (H3) into records for TraceWire.tla."""
from __future__ import annotations

def bits_of(value: int, n: int):
    return [(value >> k) & 1 for k in range(n)]

def to_records(events, start_id=1):
    """events: list of hook event dicts in order. Returns (records, malformed) - malformed lists structural problems of the
    event stream itself (unbalanced begin/end, unknown reader), which are reported as violations by the caller."""
    recs, malformed = [], []
    readers = {}      # rid -> {"data", "start", "limit", "pos", "stack"}
    writers = {}      # wid -> {"writes": [[off, n, bits]], "end": int}
    rid_next = start_id
    def add(r):
        nonlocal rid_next
        r["id"] = rid_next
        rid_next += 1
        recs.append(r)
    for e in events:
        ev = e["ev"]
        if ev == "rd_new":
            readers[e["rid"]] = {"data": e["data"], "start": e["start"], "limit": -1 if e["limit"] is None else e["limit"],
                                 "pos": e["start"], "stack": []}
        elif ev == "rd_begin":
            r = readers.get(e["rid"])
            if r is None:
                malformed.append(("read on an unknown reader", e)); continue
            r["stack"].append((e["off"], e["n"], r["pos"] if not r["stack"] else e["off"]))
        elif ev == "rd_end":
            r = readers.get(e["rid"])
            if r is None or not r["stack"]:
                malformed.append(("rd_end without rd_begin", e)); continue
            off, n, prev = r["stack"].pop()
            add({"kind": "rd", "data": r["data"], "start": r["start"], "limit": r["limit"], "off": off, "prev": prev, "n": n,
                 "bits": bits_of(int(e["result"]), n), "after": e["off"], "path": e["path"]})
            if int(e["result"]) >> n:
                malformed.append(("result wider than the number of bits read", e))
            if not r["stack"]:
                r["pos"] = e["off"]
        elif ev == "rd_align":
            r = readers.get(e["rid"])
            if r is None:
                malformed.append(("align on an unknown reader", e)); continue
            add({"kind": "align", "before": r["pos"], "after": e["off"], "a": e["a"]})
            r["pos"] = e["off"]
        elif ev == "rd_sub":
            r, c = readers.get(e["rid"]), readers.get(e["child"])
            if r is None or c is None:
                malformed.append(("sub-reader of an unknown reader", e)); continue
            add({"kind": "sub", "pbefore": r["pos"], "pafter": e["off"], "count": e["count"], "cstart": c["start"], "climit": c["limit"]})
            if c["data"] != r["data"]:
                malformed.append(("sub-reader does not share its parent's data", e))
            r["pos"] = e["off"]
        elif ev == "wr":
            w = writers.setdefault(e["wid"], {"writes": [], "end": 0})
            if e["off"] == w["end"]:                     # top-level write: laid end to end (nested recursive calls lie inside it)
                w["writes"].append(bits_of(int(e["value"]) & ((1 << e["n"]) - 1), e["n"]))
                w["end"] += e["n"]
            elif e["off"] > w["end"]:
                w["broken"] = True                       # offset moved from outside (unit tests poking the writer)
                malformed.append(("writer skipped bits", e))
            elif e["off"] + e["n"] > w["end"]:
                w["broken"] = True
        elif ev == "wr_finish":
            w = writers.pop(e["wid"], {"writes": [], "end": 0})
            if not w.get("broken") and e["off"] == w["end"]:
                add({"kind": "wr", "writes": w["writes"], "data": e["data"], "end": e["off"]})
            else:
                malformed.append(("writer whose offset was moved from outside: not judged", {"wid": e["wid"]}))
    for rid, r in readers.items():
        if r["stack"]:
            malformed.append(("read never finished", {"rid": rid}))
    return recs, malformed
