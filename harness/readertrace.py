"""Convert reader hook events (H2) of arbitrary executions into the event sequence of TraceReader.tla."""
from __future__ import annotations

def to_sequence(events):
    files = {}
    def fid(p):
        return files.setdefault(str(p), 100000 + len(files))      # disjoint from the event ids
    seq = []
    for e in events:
        ev = e["ev"]
        n = len(seq) + 1
        if ev == "read_begin":
            seq.append({"id": n, "ev": "begin", "f": fid(e["file"]), "found": [], "level": 0})
        elif ev == "read_end":
            seq.append({"id": n, "ev": "end", "f": fid(e["file"]), "found": [], "level": 0})
        elif ev == "resolve":
            seq.append({"id": n, "ev": "resolve", "f": fid(e["src"]), "found": [fid(x) for x in e["found"]], "level": 0})
        elif ev == "text_load":
            seq.append({"id": n, "ev": "text_load", "f": fid(e["file"]), "found": [], "level": 0})
        elif ev == "classify":
            seq.append({"id": n, "ev": "classify", "f": fid(e["file"]), "found": [], "level": e["level"]})
    return seq, {v: k for k, v in files.items()}
