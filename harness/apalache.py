"""Run Apalache (symbolic model checker, SMT) on an invariant of a small arithmetic module: unbounded integers."""
from __future__ import annotations
import re, shutil, subprocess, time
from . import tlc

def check(ctx, module: str, invariants, timeout: int = 600):
    """Every invariant must hold in the initial states (all naturals). A counterexample is a specification violation;
    anything else than a verdict is a machinery failure."""
    from pathlib import Path
    spec = Path(__file__).resolve().parent.parent / "spec" / (module + ".tla")
    for inv in invariants:
        wd = tlc.workdir("apalache")
        t0 = time.time()
        try:
            p = subprocess.run(["apalache-mc", "check", "--inv=" + inv, "--length=0", "--out-dir=" + str(wd / "out"), str(spec)],
                               capture_output=True, text=True, timeout=timeout, cwd=str(wd))
        except subprocess.TimeoutExpired:
            shutil.rmtree(wd, ignore_errors=True)
            raise tlc.MachineryError("Apalache did not finish %s!%s within %d s" % (module, inv, timeout))
        out = p.stdout + p.stderr
        shutil.rmtree(wd, ignore_errors=True)
        m = re.search(r"The outcome is: (\w+)", out)
        if not m:
            raise tlc.MachineryError("no verdict from Apalache for %s!%s: %s" % (module, inv, out[-800:]))
        ctx.tlc_runs.append({"config": "Apalache %s!%s (unbounded integers)" % (module, inv), "distinct_states": 0, "states_generated": 0,
                             "depth": 0, "wall_s": round(time.time() - t0, 1), "exhaustive": True})
        if m.group(1) != "NoError":
            ctx.violation({"kind": "spec", "case": "%s!%s" % (module, inv),
                           "diff": [("Apalache found a counterexample to the arithmetic lemma", m.group(1))]})
