"""Check context: counters, violations, replay files, known findings, evidence writing, parallel map."""
from __future__ import annotations
import hashlib, json, os, random, subprocess, sys, time, multiprocessing, traceback
from pathlib import Path

VERIF = Path(__file__).resolve().parent.parent
REPO = Path(os.environ.get("VERIF_REPO", "/repo")).resolve()
GUARD = "OPENCYPHAL_PYDSDL_VERIF"
os.environ.setdefault("PYTHONDONTWRITEBYTECODE", "1")
sys.dont_write_bytecode = True

def quiet():
    import logging
    logging.disable(logging.CRITICAL)

def use_repo():
    """Make `import pydsdl` resolve to REPO's working tree."""
    p = str(REPO)
    if sys.path[0] != p:
        sys.path.insert(0, p)

_SEED = int(os.environ.get("VERIF_SEED", "0") or 0)

def set_seed(n: int):
    global _SEED
    _SEED = int(n)

def sampled(block: str, mod: int) -> bool:
    """Deterministic 1/mod sample of the TLC states, varying with the seed of the run (workers inherit it by fork)."""
    if mod <= 1:
        return True
    return ((hash(block) ^ (_SEED * 2654435761)) & 0x7FFFFFFF) % mod == 0

def pick(block: str, salt: str, n: int) -> int:
    """A choice in 0..n-1 derived from the state, independent of the bits `sampled` looks at (a plain hash(block) % 2
    is constant on a 1/6 sample)."""
    return (hash((salt, hash(block))) & 0x7FFFFFFF) % n

def jhash(obj) -> str:
    return hashlib.sha1(json.dumps(obj, sort_keys=True, default=repr).encode()).hexdigest()[:16]

class Ctx:
    def __init__(self, pid: str, tier: str, seed: int):
        self.pid = pid
        self.tier = tier
        self.seed = seed
        self.rng = random.Random(seed * 1000003 + int(pid[1:]))
        self.t0 = time.time()
        self.states = 0
        self.transitions = 0
        self.evaluations = 0
        self.traces = 0
        self.nontrivial = set()
        self.samples = []
        self.violations = []       # replay records not matched by a known finding
        self.known_hits = {}       # finding id -> count
        self.notes = []
        self.extra = {}            # extra coverage keys
        self.tlc_runs = []
        self.exhaustive = True
        self.assumptions = []
        self.rule = ""
        self.findings = load_findings(pid)
        self.replay_dir = VERIF / "replays" / pid
        self._printed_known = set()

    # ---- TLC bookkeeping
    def add_tlc(self, res, name: str, exhaustive: bool = True):
        self.states += res.distinct
        self.transitions += res.generated
        self.tlc_runs.append({"config": name, "distinct_states": res.distinct, "states_generated": res.generated,
                              "depth": res.depth, "wall_s": round(res.wall, 1), "exhaustive": exhaustive})
        if not exhaustive:
            self.exhaustive = False
        if res.coverage:
            self.extra.setdefault("coverage_actions", {}).update(
                {"%s:%s" % (name, k): v[1] for k, v in res.coverage.items()})

    def spec_violation(self, res, name: str):
        """TLC found an invariant violation on the specification itself."""
        from . import tlc as _t
        rec = {"property": self.pid, "kind": "spec-invariant", "config": name, "violated": res.violated,
               "tlc_excerpt": _t.trace_excerpt(res)}
        self.violation(rec)

    # ---- cases
    def count(self, n: int = 1):
        self.evaluations += n

    def nontriv(self, key):
        self.nontrivial.add(key if isinstance(key, (str, int)) else jhash(key))

    def sample(self, s, limit: int = 6):
        if len(self.samples) < limit:
            self.samples.append(s)

    def note(self, s: str):
        if s not in self.notes:
            self.notes.append(s)

    def violation(self, rec: dict):
        rec.setdefault("property", self.pid)
        rec.setdefault("seed", self.seed)
        rec.setdefault("tier", self.tier)
        f = match_finding(self.findings, rec)
        if f is not None:
            self.known_hits[f["id"]] = self.known_hits.get(f["id"], 0) + 1
            if f["id"] not in self._printed_known:
                self._printed_known.add(f["id"])
                print("KNOWN-FINDING: property=%s %s: %s" % (self.pid, f["id"], f["what"]), flush=True)
            return
        self.violations.append(rec)
        if len(self.violations) <= 25:
            self.replay_dir.mkdir(parents=True, exist_ok=True)
            path = self.replay_dir / (jhash(rec) + ".json")
            path.write_text(json.dumps(rec, indent=1, default=repr))
            print("VIOLATION property=%s replay=%s" % (self.pid, path), flush=True)
            brief = {k: rec[k] for k in ("kind", "diff", "case", "what") if k in rec}
            print("  " + json.dumps(brief, default=repr)[:600], flush=True)

    # ---- finish
    def finish(self, level: str = "model_checking") -> int:
        wall = time.time() - self.t0
        cov = {
            "states": self.states,
            "transitions": self.transitions,
            "traces_validated_against_impl": self.traces,
            "evaluations": self.evaluations,
            "distinct_nontrivial": len(self.nontrivial),
            "rule": self.rule,
            "samples": self.samples[:8],
            "exhaustive": bool(self.exhaustive),
            "tlc_runs": self.tlc_runs,
            "notes": self.notes,
            "known_findings": self.known_hits,
        }
        cov.update(self.extra)
        ev = {"property_id": self.pid, "tier": self.tier, "seed": self.seed, "level": level, "coverage": cov,
              "assumptions": self.assumptions, "wall_s": round(wall, 2), "violations": len(self.violations)}
        (VERIF / "evidence").mkdir(exist_ok=True)
        path = VERIF / "evidence" / (self.pid + ".json")
        if os.environ.get("VERIF_NO_EVIDENCE"):   # self-test runs against a modified copy: keep the real evidence
            path = VERIF / ".work" / ("evidence-%s-%d.json" % (self.pid, os.getpid()))
            path.parent.mkdir(exist_ok=True)
        path.write_text(json.dumps(ev, indent=1, default=repr) + "\n")
        validate_evidence(path)
        print("%s tier=%s seed=%d: states=%d transitions=%d bound=%d evaluations=%d nontrivial=%d violations=%d "
              "known=%s wall=%.1fs" % (self.pid, self.tier, self.seed, self.states, self.transitions, self.traces,
                                       self.evaluations, len(self.nontrivial), len(self.violations),
                                       dict(self.known_hits), wall), flush=True)
        return 1 if self.violations else 0

def validate_evidence(path: Path):
    schema = "/root/.vp/EVIDENCE.schema.json"
    if not os.path.exists(schema):
        return
    code = ("import json,sys,jsonschema;"
            "jsonschema.validate(json.load(open(sys.argv[1])), json.load(open(sys.argv[2])))")
    try:
        p = subprocess.run(["python3-vt", "-c", code, str(path), schema], stdout=subprocess.PIPE,
                           stderr=subprocess.STDOUT, text=True, timeout=60)
    except (FileNotFoundError, subprocess.TimeoutExpired):
        return
    if p.returncode != 0:
        from .tlc import MachineryError
        raise MachineryError("evidence file does not validate: " + p.stdout[-800:])

# ---- known findings ------------------------------------------------------------------------------------------
def load_findings(pid: str):
    p = VERIF / "known_findings.json"
    if not p.exists():
        return []
    data = json.loads(p.read_text())
    return [f for f in data.get("findings", []) if f.get("property") == pid and f.get("status") == "known"]

def _get(rec, dotted):
    cur = rec
    for part in dotted.split("."):
        if isinstance(cur, dict) and part in cur:
            cur = cur[part]
        else:
            return None
    return cur

def match_finding(findings, rec):
    for f in findings:
        m = f.get("match") or {}
        if m and all(_get(rec, k) == v for k, v in m.items()):
            return f
    return None

# ---- parallel map ---------------------------------------------------------------------------------------------
def _init_worker():
    try:
        import resource
        resource.setrlimit(resource.RLIMIT_AS, (6 << 30, 6 << 30))     # a runaway case must not take the machine down
    except Exception:
        pass
    use_repo()
    import logging
    logging.disable(logging.CRITICAL)      # pydsdl logs warnings (legacy extensions etc.); not part of any observation

def pmap(fn, items, procs: int = 16, chunksize: int = 64):
    """Map fn over items in worker processes (fork). fn must be a module-level function."""
    items = list(items)
    if not items:
        return []
    if procs <= 1 or len(items) < 2 * chunksize:
        _init_worker()
        return [fn(x) for x in items]
    ctx = multiprocessing.get_context("fork")
    with ctx.Pool(procs, initializer=_init_worker) as pool:
        return pool.map(fn, items, chunksize=chunksize)

def library_failure(r):
    """A worker died with an exception: if the innermost frame is inside pydsdl, the LIBRARY failed while being observed
    (e.g. an internal assertion) - that is a finding about the code, not about the harness."""
    tb = r.get("tb", "")
    frames = [l for l in tb.splitlines() if l.strip().startswith("File ")]
    if frames and "/pydsdl/" in frames[-1]:
        return {"kind": "library-exception", "case": r.get("item", "")[:400],
                "diff": [("pydsdl raised while being observed", r["harness_exception"][:300], frames[-1].strip()[:200])]}
    return None

def safe(fn):
    """Decorator for worker functions: never let an exception kill the pool; report it as an observation."""
    def w(x):
        try:
            return fn(x)
        except Exception as ex:  # the harness itself failed on this case
            return {"harness_exception": "".join(traceback.format_exception_only(type(ex), ex)).strip(),
                    "tb": traceback.format_exc()[-1500:], "item": repr(x)[:500]}
    w.__name__ = fn.__name__
    w.__qualname__ = fn.__qualname__
    w.__module__ = fn.__module__
    return w
