"""Binding between Wire.tla and pydsdl.serialize / deserialize: abstract <-> Python values, real types from DSDL."""
from __future__ import annotations
import struct
from . import core, tlaval, dsdlio, dsdlgen

_FMT = {16: "<e", 32: "<f", 64: "<d"}
_UFMT = {16: "<H", 32: "<I", 64: "<Q"}

def pattern_to_float(p: int, n: int) -> float:
    return struct.unpack(_FMT[n], struct.pack(_UFMT[n], p))[0]

def float_to_pattern(x: float, n: int) -> int:
    return struct.unpack(_UFMT[n], struct.pack(_FMT[n], x))[0]

def to_py(t, v, relaxed: int = 0):
    """Abstract value -> Python object accepted by pydsdl.serialize (strict dict form unless relaxed)."""
    k = t["k"]
    if k == "bool":
        return bool(v)
    if k in ("u", "i"):
        return int(v)
    if k == "f":
        return pattern_to_float(v, t["n"])
    if k == "void":
        return None
    if k in ("fix", "var"):
        return [to_py(t["e"], x, relaxed) for x in v]
    if k == "del":
        return to_py(t["inner"], v, relaxed)
    if k == "st":
        named = [(j, ft) for j, ft in enumerate(t["f"]) if ft["k"] != "void"]
        if relaxed in (1, 2) and len(named) == 1:      # bare value for a single-field structure (a one-element
                                                       # positional list would be ambiguous with an array value)
            j, ft = named[0]
            bare = to_py(ft, v[j], relaxed)
            if isinstance(bare, dict) and ("f%d" % (j + 1)) in bare:
                # a bare dict that happens to contain the outer field's name IS the explicit form: ambiguous, keep explicit
                return {"f%d" % (j + 1): bare}
            return bare
        if relaxed == 2:                               # positional
            return [to_py(ft, v[j], relaxed) for j, ft in named]
        return {"f%d" % (j + 1): to_py(ft, v[j], relaxed) for j, ft in named}
    if k == "un":
        j = v[0] - 1               # a union value is the pair (1-based variant index, value)
        return {"f%d" % (j + 1): to_py(t["f"][j], v[1], relaxed)}
    raise ValueError(k)

def from_py(t, o):
    """Python object returned by pydsdl.deserialize -> abstract value (tuples for sequences)."""
    k = t["k"]
    if k == "bool":
        if not isinstance(o, bool):
            return ("?type", repr(o))
        return o
    if k in ("u", "i"):
        if isinstance(o, bool) or not isinstance(o, int):
            return ("?type", repr(o))
        return o
    if k == "f":
        if not isinstance(o, float):
            return ("?type", repr(o))
        if o != o:
            return ("?nan",)       # NaN payloads do not survive a Python float: IEEE conversion is not decided here
        return float_to_pattern(o, t["n"])
    if k == "void":
        return 0
    if k in ("fix", "var"):
        if not isinstance(o, list):
            return ("?type", repr(o))
        return tuple(from_py(t["e"], x) for x in o)
    if k == "del":
        return from_py(t["inner"], o)
    if k == "st":
        if not isinstance(o, dict):
            return ("?type", repr(o))
        named = {"f%d" % (j + 1) for j, ft in enumerate(t["f"]) if ft["k"] != "void"}
        if set(o.keys()) != named:
            return ("?keys", sorted(o.keys()))
        return tuple(0 if ft["k"] == "void" else from_py(ft, o["f%d" % (j + 1)]) for j, ft in enumerate(t["f"]))
    if k == "un":
        if not isinstance(o, dict) or len(o) != 1:
            return ("?type", repr(o))
        key = next(iter(o))
        j = int(key[1:]) - 1
        return (j + 1, from_py(t["f"][j], o[key]))
    raise ValueError(k)

def default_of(t):
    k = t["k"]
    if k == "bool":
        return False
    if k in ("u", "i", "f", "void"):
        return 0
    if k == "fix":
        return tuple(default_of(t["e"]) for _ in range(t["c"]))
    if k == "var":
        return ()
    if k == "st":
        return tuple(default_of(ft) for ft in t["f"])
    if k == "un":
        return (1, default_of(t["f"][0]))
    return default_of(t["inner"])

class RealType:
    """Materialise an abstract composite type once and keep the pydsdl object (and its scratch tree) alive."""
    def __init__(self, t, seed=0):
        self.t = t
        g = dsdlgen.Gen(seed)
        g.composite(t, name="X")
        self.files = g.files
        self.tree = dsdlio.Tree(g.files, "wire")
        status, res, _ = dsdlio.read_ns(self.tree.path("ns"))
        if status != "ok":
            self.tree.close()
            raise RuntimeError("type rejected: %s %s" % (dsdlio.err_info(res), g.files))
        self.obj = [x for x in res if x.full_name == "ns.X"][0]
    def close(self):
        self.tree.close()

_CACHE = {}
def real_type(t):
    key = repr(t)
    rt = _CACHE.get(key)
    if rt is None:
        if len(_CACHE) > 300:
            for v in _CACHE.values():
                v.close()
            _CACHE.clear()
        rt = _CACHE[key] = RealType(t, seed=hash(key) % 1000)
    return rt

def classify_exc(ex):
    import pydsdl
    from pydsdl import _serdes
    if isinstance(ex, _serdes.ArrayLengthError):
        return "ArrayLength"
    if isinstance(ex, _serdes.UnionTagError):
        return "UnionTag"
    if isinstance(ex, _serdes.DelimiterHeaderError):
        return "DelimiterHeader"
    if isinstance(ex, pydsdl.SerDesError):
        return "SerDes:" + type(ex).__name__
    if isinstance(ex, ValueError):
        return "ValueError"
    return "RAW:" + type(ex).__name__
