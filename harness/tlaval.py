"""Parser and printer for TLA+ values as TLC prints them (dumps, simulation traces, PrintT output).

Sequences/tuples -> tuple, sets -> frozenset, records and functions -> Rec (a hashable, immutable dict),
strings -> str, integers -> int, booleans -> bool. Model values / identifiers -> Ident(str).
"""
from __future__ import annotations
import re

class Rec(dict):
    """Immutable hashable mapping (TLA+ record or function)."""
    __slots__ = ("_h",)
    def __hash__(self):  # type: ignore
        try:
            return self._h
        except AttributeError:
            self._h = hash(frozenset(self.items()))
            return self._h
    def __getattr__(self, k):
        try:
            return self[k]
        except KeyError:
            raise AttributeError(k) from None
    def _ro(self, *a, **k):
        raise TypeError("immutable")
    __setitem__ = __delitem__ = clear = pop = popitem = setdefault = update = _ro

class Ident(str):
    pass

_TOK = re.compile(r'''
    (?P<ws>\s+)
  | (?P<str>"(?:[^"\\]|\\.)*")
  | (?P<int>-?\d+)
  | (?P<op><<|>>|\|->|:>|@@|\.\.|[\[\]\{\}\(\),])
  | (?P<id>[A-Za-z_][A-Za-z0-9_!]*)
''', re.X)

_ESC = {"\\\\": "\\", '\\"': '"', "\\n": "\n", "\\t": "\t", "\\r": "\r", "\\f": "\f"}
_ESC_RE = re.compile(r'\\[\\"ntrf]')

def _unescape(s: str) -> str:
    if "\\" not in s:
        return s
    return _ESC_RE.sub(lambda m: _ESC[m.group(0)], s)

def tokenize(text: str):
    out = []
    pos = 0
    n = len(text)
    m_ = _TOK.match
    while pos < n:
        m = m_(text, pos)
        if m is None:
            raise ValueError("cannot tokenize TLA+ value at %r" % text[pos:pos + 40])
        pos = m.end()
        k = m.lastgroup
        if k == "ws":
            continue
        out.append((k, m.group(0)))
    return out

class _P:
    def __init__(self, toks):
        self.t = toks
        self.i = 0
    def peek(self):
        return self.t[self.i] if self.i < len(self.t) else (None, None)
    def take(self, v=None):
        k, s = self.t[self.i]
        if v is not None and s != v:
            raise ValueError("expected %r got %r at token %d" % (v, s, self.i))
        self.i += 1
        return k, s
    def value(self):
        k, s = self.take()
        if k == "int":
            v = int(s)
            if self.peek()[1] == "..":
                self.take()
                hi = self.value()
                return frozenset(range(v, hi + 1))
            return v
        if k == "str":
            return _unescape(s[1:-1])
        if k == "id":
            if s == "TRUE":
                return True
            if s == "FALSE":
                return False
            return Ident(s)
        if s == "<<":
            items = []
            if self.peek()[1] == ">>":
                self.take()
                return ()
            while True:
                items.append(self.value())
                _, d = self.take()
                if d == ">>":
                    return tuple(items)
                if d != ",":
                    raise ValueError("bad tuple delimiter %r" % d)
        if s == "{":
            items = []
            if self.peek()[1] == "}":
                self.take()
                return frozenset()
            while True:
                items.append(self.value())
                _, d = self.take()
                if d == "}":
                    return frozenset(items)
                if d != ",":
                    raise ValueError("bad set delimiter %r" % d)
        if s == "[":
            r = {}
            while True:
                _, name = self.take()
                self.take("|->")
                r[name] = self.value()
                _, d = self.take()
                if d == "]":
                    return Rec(r)
                if d != ",":
                    raise ValueError("bad record delimiter %r" % d)
        if s == "(":
            r = {}
            while True:
                key = self.value()
                self.take(":>")
                r[key] = self.value()
                _, d = self.take()
                if d == ")":
                    return Rec(r)
                if d != "@@":
                    raise ValueError("bad function delimiter %r" % d)
        raise ValueError("unexpected token %r" % s)

def parse(text: str):
    p = _P(tokenize(text))
    v = p.value()
    if p.i != len(p.t):
        raise ValueError("trailing tokens in TLA+ value: %r" % (p.t[p.i:p.i + 5],))
    return v

_STATE_RE = re.compile(r'^State \d+:.*$', re.M)
_VAR_RE = re.compile(r'^/\\ (\w+) = ', re.M)

def parse_state_block(block: str) -> dict:
    """A block '/\\ v1 = ...\n/\\ v2 = ...' -> {v1: value, ...}."""
    out = {}
    ms = list(_VAR_RE.finditer(block))
    for i, m in enumerate(ms):
        end = ms[i + 1].start() if i + 1 < len(ms) else len(block)
        out[m.group(1)] = parse(block[m.end():end])
    return out

def iter_dump(path: str, only_vars=None):
    """Iterate over states of a `tlc -dump` file."""
    with open(path, "r", encoding="utf8", errors="surrogateescape") as f:
        buf = []
        for line in f:
            if line.startswith("State "):
                if buf:
                    yield parse_state_block("".join(buf))
                buf = []
            elif line.strip():
                buf.append(line)
        if buf:
            yield parse_state_block("".join(buf))

def split_dump_blocks(path: str):
    """Return list of raw state blocks (strings); parsing can then be distributed over processes."""
    with open(path, "r", encoding="utf8", errors="surrogateescape") as f:
        data = f.read()
    parts = _STATE_RE.split(data)
    return [p for p in parts if p.strip()]

def to_tla(v) -> str:
    if isinstance(v, bool):
        return "TRUE" if v else "FALSE"
    if isinstance(v, int):
        return str(v)
    if isinstance(v, Ident):
        return str(v)
    if isinstance(v, str):
        return '"' + v.replace("\\", "\\\\").replace('"', '\\"').replace("\n", "\\n").replace("\t", "\\t").replace("\r", "\\r") + '"'
    if isinstance(v, (tuple, list)):
        return "<<" + ", ".join(to_tla(x) for x in v) + ">>"
    if isinstance(v, (set, frozenset)):
        return "{" + ", ".join(sorted(to_tla(x) for x in v)) + "}"
    if isinstance(v, dict):
        if not v:
            return "<<>>"
        if all(isinstance(k, str) and re.fullmatch(r"[A-Za-z_][A-Za-z0-9_]*", k) for k in v):
            return "[" + ", ".join("%s |-> %s" % (k, to_tla(x)) for k, x in v.items()) + "]"
        return "(" + " @@ ".join("%s :> %s" % (to_tla(k), to_tla(x)) for k, x in v.items()) + ")"
    raise TypeError("cannot render %r as TLA+" % (v,))

def to_json(v):
    """Plain JSON-able form for evidence samples / replay files."""
    if isinstance(v, (bool, int, str)) or v is None:
        return v
    if isinstance(v, (tuple, list)):
        return [to_json(x) for x in v]
    if isinstance(v, (set, frozenset)):
        try:
            return {"set": sorted((to_json(x) for x in v), key=lambda x: repr(x))}
        except TypeError:
            return {"set": [to_json(x) for x in v]}
    if isinstance(v, dict):
        return {str(k): to_json(x) for k, x in v.items()}
    return repr(v)

if __name__ == "__main__":
    import sys
    for st in iter_dump(sys.argv[1]):
        print(st)
