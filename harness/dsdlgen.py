"""Materialise abstract type records (Layout.tla / Wire.tla) as DSDL namespaces."""
from __future__ import annotations
import random

class Gen:
    """Collects the files of a namespace `ns` for a set of abstract types."""
    def __init__(self, seed: int = 0, ns: str = "ns"):
        self.ns = ns
        self.files = {}
        self.names = {}
        self.rng = random.Random(seed)
        self.n = 0

    def prim(self, t) -> str:
        k = t["k"]
        if k == "bool":
            return "bool"
        if k == "u":
            return ("saturated " if self.rng.random() < 0.3 else "") + "uint%d" % t["n"] if t["m"] == "s" else "truncated uint%d" % t["n"]
        if k == "i":
            return ("saturated " if self.rng.random() < 0.3 else "") + "int%d" % t["n"]
        if k == "f":
            return ("saturated " if self.rng.random() < 0.3 else "") + "float%d" % t["n"] if t["m"] == "s" else "truncated float%d" % t["n"]
        if k == "void":
            return "void%d" % t["n"]
        raise ValueError(k)

    def expr(self, t) -> str:
        """DSDL type expression for t (creating files for nested composites)."""
        k = t["k"]
        if k in ("bool", "u", "i", "f", "void"):
            return self.prim(t)
        if k == "fix":
            return "%s[%d]" % (self.expr(t["e"]), t["c"])
        if k == "var":
            if self.rng.random() < 0.5:
                return "%s[<=%d]" % (self.expr(t["e"]), t["c"])
            return "%s[<%d]" % (self.expr(t["e"]), t["c"] + 1)
        return self.composite(t)

    def composite(self, t, name: str | None = None, extra_lines=(), version="1.0", offset_prints=False) -> str:
        """Create the definition file of composite t; returns its versioned full name."""
        key = repr(t)      # one file per distinct type record (a record registered under a name keeps that name)
        if key in self.names:
            return self.names[key]
        if name is None:
            self.n += 1
            name = "T%d" % self.n
        lines = self.body_lines(t, extra_lines, offset_prints)
        full = "%s.%s.%s" % (self.ns, name, version)
        self.files["%s/%s.%s.dsdl" % (self.ns, name, version)] = "\n".join(lines) + "\n"
        self.names[key] = full
        return full

def _body_lines(self, t, extra_lines=(), offset_prints=False, field_prefix="f"):
    """The statements of one schema (a message, or one section of a service) for composite t."""
    inner = t["inner"] if t["k"] == "del" else t
    lines = []
    if inner["k"] == "un":
        lines.append("@union")
    if offset_prints and inner["k"] == "st":
        lines.append("@print _offset_")
    for j, ft in enumerate(inner["f"]):
        if ft["k"] == "void":
            lines.append(self.prim(ft))
        else:
            lines.append("%s %s%d" % (self.expr(ft), field_prefix, j + 1))
        if offset_prints and (inner["k"] == "st" or j + 1 == len(inner["f"])):
            lines.append("@print _offset_")
    # constants are attributes but not fields: they must not influence layout, tags, offsets or the wire format
    lines.append("uint8 K_ONE = 1")
    lines.append("float16 K_HALF = 0.5")
    lines.extend(extra_lines)
    lines.append("@extent %d" % t["x"] if t["k"] == "del" else "@sealed")
    return lines
Gen.body_lines = _body_lines

def wrap_field(gen: Gen, t) -> str:
    """A structure W with the single field `x` of type t (void: padding). Returns W's full name."""
    line = gen.prim(t) if t["k"] == "void" else "%s x" % gen.expr(t)
    gen.files["%s/W.1.0.dsdl" % gen.ns] = line + "\n@sealed\n"
    return "%s.W.1.0" % gen.ns
