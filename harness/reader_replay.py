"""Binding A for Reader.tla: materialise definition configurations in three directories, call read_namespace /
read_files, project results (direct, transitive, reference links, error location, print events) and compare."""
from __future__ import annotations
import os
from . import core, tlaval, dsdlio

NAMES = {"X": 1, "Y": 2, "Z": 3, "x": 4, "y": 5, "a": 6}
NS = {1: "a", 2: "b", 3: "a", 5: "b"}
PHYS = {1: 1, 2: 2, 3: 3, 5: 2}        # directory 5 is directory 2 again: a second file of the same name and version

def idnum(i) -> int:
    return i["dir"] * 1000 + NAMES[i["name"]] * 100 + i["maj"] * 10 + i["min"]

def idkey(i):
    return (i["dir"], i["name"], i["maj"], i["min"])

def relpath(i) -> str:
    if i["dir"] == 5:      # legacy suffix (a port-ID prefix would bring the minor-version port rules of C11 into play)
        return "d2/b/%s.%d.%d.uavcan" % (i["name"], i["maj"], i["min"])
    return "d%d/%s/%s.%d.%d.dsdl" % (i["dir"], NS[i["dir"]], i["name"], i["maj"], i["min"])

def ref_text(r) -> str:
    base = "%s.%d.%d" % (r["name"], r["maj"], r["min"])
    return base if r["ns"] == "rel" else r["ns"] + "." + base

BODY_TEXT = {"ok": None, "print": "@print %d", "assertfail": "@assert false", "garbage": "@@ garbage ]", "nomode": None,
             "service": None, "badref": "a.Nope.9.9 q"}

def def_text(d, body=None) -> str:
    body = body or d["body"]
    if body in ("empty", "blank"):          # a file of zero bytes / of line breaks only
        return "" if body == "empty" else "\n\n"
    lines = ["%s f%d" % (ref_text(r), k + 1) for k, r in enumerate(d["refs"])]
    bt = BODY_TEXT[body]
    if bt:
        lines.append(bt % idnum(d) if "%d" in bt else bt)
    if body == "service":
        lines += ["@sealed", "---", "@sealed"]
    elif body != "nomode":
        lines.append("@sealed")
    return "\n".join(lines) + "\n"

def files_of(case, override=None):
    """override: {idkey: body} replacements."""
    fs = {}
    for d in case["defs"]:
        body = (override or {}).get(idkey(d))
        fs[relpath(d)] = def_text(d, body)
    for dirn in (1, 2, 3):                       # all three directories exist
        fs.setdefault("d%d/%s/.keep" % (dirn, NS[dirn]), "")
    return fs

def path_to_id(root: str, p):
    """/scratch/.../d1/a/X.0.1.dsdl -> idkey"""
    if p is None:
        return None
    rel = os.path.relpath(str(p), root)
    parts = rel.split(os.sep)
    try:
        dirn = int(parts[0][1:])
        fields = parts[-1].split(".")
        if fields[-1] == "uavcan" or fields[0].isdigit():
            dirn = 5
        if fields[0].isdigit():
            fields = fields[1:]
        name, maj, mnr = fields[:3]
        return (dirn, name, int(maj), int(mnr))
    except Exception:
        return ("?", rel)

def comp_id(root, t):
    return path_to_id(root, t.source_file_path)

def collect_links(root, types):
    """All (from, k, to) over every composite reachable from `types` through field types."""
    import pydsdl
    links, seen, stack = set(), set(), list(types)
    consistent = True
    while stack:
        t = stack.pop()
        key = id(t)
        if key in seen:
            continue
        seen.add(key)
        if isinstance(t, pydsdl.ServiceType):
            continue
        for k, f in enumerate(t.fields):
            dt = f.data_type
            if isinstance(dt, pydsdl.CompositeType):
                links.add((comp_id(root, t), k + 1, comp_id(root, dt)))
                stack.append(dt)
    return links

def run_config(case, entry: str, override=None, hash_seed=None, twice=False):
    """Materialise and read. Returns projection dict. twice: the same call is made a second time on the same tree in the
    same process; what the second call returns and prints is kept under "second"."""
    with dsdlio.Tree(files_of(case, override), "rd") as tr:
        first = _read_once(tr, case, entry)
        if twice:
            second = _read_once(tr, case, entry)
            first["second"] = {k: second.get(k) for k in ("ok", "direct", "transitive", "prints", "path", "line", "cls")}
        return first

def _read_once(tr, case, entry):
    import pydsdl
    from pydsdl import _verif_trace
    if True:
        root = str(tr.root)
        _verif_trace.drain()
        prints = []
        def ph(path, line, text):
            prints.append((path_to_id(root, path), line, text.strip()))
        ph = dsdlio.handler_form(ph)      # any callable: function, bound method, partial, a falsy callable object in turn
        lookups = [tr.path("d2/b"), tr.path("d3/a")]
        try:
            # the directory / file arguments are documented as iterables: lists, tuples and one-shot iterables in turn
            form = idnum(case["defs"][0]) % 3 if case["defs"] else 0
            wrap = (lambda xs: list(xs)) if form == 0 else (lambda xs: tuple(xs)) if form == 1 else (lambda xs: (x for x in list(xs)))
            if entry == "namespace":
                direct = pydsdl.read_namespace(tr.path("d1/a"), wrap(lookups), print_output_handler=ph,
                                               allow_unregulated_fixed_port_id=True)
                transitive = None
            else:
                targets = [tr.path(relpath(d)) for d in case["defs"] if idkey(d) in {idkey(t) for t in case["targets"]}]
                for n_, t in enumerate(case.get("dup", ())):
                    # the same file a second time under another spelling (through "..", or through a symbolic link to
                    # its directory); placed first or last
                    rp = relpath(t)
                    head, tail = rp.rsplit("/", 1)
                    variant = (idnum(t) + len(targets)) % 3
                    if variant == 2:
                        if not os.path.lexists(tr.path("d1/alias")):
                            os.symlink(tr.path(head), tr.path("d1/alias"))
                        alt = os.path.join(tr.path("d1/alias"), tail)
                    else:
                        alt = os.path.join(tr.path(head), "..", os.path.basename(head), tail)
                    targets = [alt] + targets if variant == 0 else targets + [alt]
                direct, transitive = pydsdl.read_files(wrap(targets), wrap([tr.path("d1/a")]), wrap(lookups), print_output_handler=ph,
                                                       allow_unregulated_fixed_port_id=True)
        except BaseException as ex:
            if isinstance(ex, (KeyboardInterrupt, SystemExit)):
                raise
            info = dsdlio.err_info(ex)
            return {"ok": False, "ide": info["ide"], "cls": info["cls"], "path": path_to_id(root, info["path"]),
                    "line": info["line"] or 0, "prints": prints, "text": info["text"][:200],
                    "events": project_events(root, _verif_trace.drain())}
        out = {"ok": True, "direct": [comp_id(root, t) for t in direct],
               "transitive": None if transitive is None else [comp_id(root, t) for t in transitive],
               "links": collect_links(root, list(direct) + list(transitive or [])), "prints": prints,
               "events": project_events(root, _verif_trace.drain())}
        # structural sanity of what was returned
        out["names_ok"] = all(t.full_name == "%s.%s" % (NS[comp_id(root, t)[0]], comp_id(root, t)[1])
                              and (t.version.major, t.version.minor) == comp_id(root, t)[2:] for t in direct)
        return out

def project_events(root, events):
    """Hook events -> the abstract steps of Reader.tla's log (plus text loads and classifications)."""
    out = []
    for e in events:
        ev = e["ev"]
        if ev == "read_begin":
            out.append(("begin", path_to_id(root, e["file"])))
        elif ev == "read_end":
            out.append(("end", path_to_id(root, e["file"]), bool(e["ok"])))
        elif ev == "resolve":
            out.append(("resolve", path_to_id(root, e["src"]), frozenset(path_to_id(root, f) for f in e["found"])))
        elif ev == "print":
            out.append(("print", path_to_id(root, e["file"]), e["line"]))
        elif ev == "text_load":
            out.append(("text_load", path_to_id(root, e["file"])))
        elif ev == "classify":
            out.append(("classify", path_to_id(root, e["file"]), e["level"], e["action"]))
        elif ev == "check_scope":
            out.append(("check_scope", frozenset(path_to_id(root, f) for f in e["port"]), frozenset(path_to_id(root, f) for f in e["version"])))
    return out

def expected_log(out):
    log = []
    for e in out["log"]:
        k = e["e"]
        if k == "begin":
            log.append(("begin", idkey(e["id"])))
        elif k == "end":
            log.append(("end", idkey(e["id"]), bool(e["ok"])))
        elif k == "resolve":
            log.append(("resolve", idkey(e["id"]), frozenset(idkey(x) for x in e["found"])))
        elif k == "print":
            log.append(("print", idkey(e["id"]), e["line"]))
    return log

def compare_events(exp_log, closure, targets, got_events, ok):
    """Binding B: the recorded execution is the behaviour the specification prescribes, step by step."""
    diff = []
    steps = [e for e in got_events if e[0] in ("begin", "end", "resolve", "print")]
    if not got_events and exp_log:
        return [("hooks-silent",)]
    if steps != exp_log:
        n = next((i for i, (a, b) in enumerate(zip(steps, exp_log)) if a != b), min(len(steps), len(exp_log)))
        diff.append(("recorded steps diverge from the specification at step %d" % (n + 1),
                     [list(map(str, x)) for x in steps[n:n + 2]], [list(map(str, x)) for x in exp_log[n:n + 2]]))
    loads = [e[1] for e in got_events if e[0] == "text_load"]
    outside = [x for x in loads if x not in closure]
    if outside:
        diff.append(("text of a definition outside the dependency closure was loaded", outside))
    if len(set(loads)) != len(loads):
        diff.append(("a definition's text was loaded more than once", loads))
    begun = [e[1] for e in steps if e[0] == "begin"]
    if sorted(map(str, loads)) != sorted(map(str, begun)):
        diff.append(("text loads do not match the definitions parsed", loads, begun))
    if ok:
        scope = [e for e in got_events if e[0] == "check_scope"]
        if len(scope) != 1 or scope[0][1] != frozenset(targets) or scope[0][2] != frozenset(closure):
            diff.append(("scope of the cross-definition checks", [[sorted(list(x), key=repr) for x in s[1:]] for s in scope], sorted(targets, key=repr), sorted(closure, key=repr)))
    return diff

def expected(out):
    if not out["ok"]:
        return {"ok": False, "kind": out["kind"], "path": idkey(out["path"]), "line": out["line"],
                "prints": [(idkey(p["path"]), p["line"], str(idnum(p["in"]))) for p in out["prints"]],
                "print_in": [idkey(p["in"]) for p in out["prints"]]}
    return {"ok": True, "direct": [idkey(i) for i in out["direct"]], "transitive": [idkey(i) for i in out["transitive"]],
            "links": {(idkey(l["from"]), l["k"], idkey(l["to"])) for l in out["links"]},
            "prints": [(idkey(p["path"]), p["line"], str(idnum(p["in"]))) for p in out["prints"]],
            "print_in": [idkey(p["in"]) for p in out["prints"]]}

def compare(exp, got, entry, targets):
    """Returns list of (kind, diff...) tuples; kind 'print-path' entries carry the F4b shape."""
    diff = []
    if exp["ok"] != got["ok"]:
        return [("generic", ("accepted", got["ok"], exp["ok"], got.get("cls"), got.get("text")))]
    # print events: same evaluations in the same order, each with its own location
    ge = [(p[1], p[2]) for p in got["prints"]]
    ee = [(p[1], p[2]) for p in exp["prints"]]
    if ge != ee:
        diff.append(("generic", ("print events (line, text)", ge, ee)))
    else:
        for g, e, pin in zip(got["prints"], exp["prints"], exp["print_in"]):
            if g[0] != e[0]:
                shape = "dependency" if (g[0] in targets and pin != g[0]) else "other"
                diff.append(("print-path", ("print delivered with path", g[0], "expected", e[0]), shape))
    if not exp["ok"]:
        if not got["ide"]:
            diff.append(("generic", ("error class is not InvalidDefinitionError", got["cls"], got["text"])))
        if exp["kind"] != "case":      # for a letter-case mismatch pydsdl names the existing definition's file; the statement does not settle which file "contains the fault"
            if got["path"] != exp["path"]:
                diff.append(("generic", ("error path", got["path"], exp["path"], got["cls"])))
            if got["line"] != exp["line"]:
                diff.append(("generic", ("error line", got["line"], exp["line"], got["cls"])))
        return diff
    if got["direct"] != exp["direct"]:
        diff.append(("generic", ("direct", got["direct"], exp["direct"])))
    if entry == "files" and got["transitive"] != exp["transitive"]:
        diff.append(("generic", ("transitive", got["transitive"], exp["transitive"])))
    if got["links"] != exp["links"]:
        diff.append(("generic", ("reference links", sorted(got["links"] ^ exp["links"], key=repr))))
    if not got["names_ok"]:
        diff.append(("generic", ("name/version of a returned type does not match its file",)))
    return diff

def _case(st):
    c = st["case"]
    return {"defs": sorted(c["defs"], key=lambda d: idkey(d)), "targets": list(c.get("targets", ())), "ids": c["ids"],
            "dup": list(c.get("dup", ()))}

@core.safe
def worker(arg):
    block, entry, sample_mod, paired = arg
    if not core.sampled(block, sample_mod):
        return None
    st = tlaval.parse_state_block(block)
    if st["ph"] != 2:
        return None
    case, out = _case(st), st["out"]
    exp = expected(out)
    tset = {idkey(d) for d in case["defs"] if d["dir"] == 1} if entry == "namespace" else {idkey(t) for t in case["targets"]}
    twice = core.pick(block, "twice", 3) == 0
    got = run_config(case, entry, twice=twice)
    diffs = compare(exp, got, entry, tset)
    if twice and not diffs:
        # reading is a function of the files: the same call repeated in the same process returns and prints the same
        sec = got["second"]
        fst = {k: got.get(k) for k in ("ok", "direct", "transitive", "prints", "path", "line", "cls")}
        if sec != fst:
            diffs.append(("generic", ("the same call repeated on the same files gives another result / other @print events",
                                      {k: sec[k] for k in sec if sec[k] != fst[k]}, {k: fst[k] for k in sec if sec[k] != fst[k]})))
    for d in compare_events(expected_log(out), {idkey(i) for i in out["closure"]}, tset, got.get("events", []), bool(out["ok"])):
        diffs.append(("trace", d))
    bad = []
    for d in diffs:
        rec = {"kind": d[0], "case": tlaval.to_json(st["case"]), "entry": entry, "diff": [d[1]],
               "files": files_of(case)}
        if d[0] == "print-path":
            rec["print_in"] = d[2]
            rec["reached_via"] = "referrer" if d[2] == "dependency" else "other"
        bad.append(rec)
    n = 1
    if paired and not diffs:
        # C19: replace the text of every definition outside the closure; nothing observable may change
        closure = {idkey(i) for i in out["closure"]}
        outside = [d for d in case["defs"] if idkey(d) not in closure]
        for d in outside:
            for body in ("garbage", "assertfail", "nomode", "print", "service", "badref", "empty", "blank"):
                got2 = run_config(case, entry, override={idkey(d): body})
                n += 1
                if _strip(got2) != _strip(got):
                    bad.append({"kind": "outside-replacement", "case": tlaval.to_json(st["case"]), "entry": entry,
                                "replaced": list(idkey(d)), "replacement": body,
                                "diff": [("result changed", _show(got2), _show(got))]})
    nt = (len(case["defs"]) >= 2 and any(d["refs"] for d in case["defs"]))
    r = {"nt": nt, "key": core.jhash(tlaval.to_json(st["case"])), "n": n, "outside": bool(paired and any(idkey(d) not in {idkey(i) for i in out["closure"]} for d in case["defs"]))}
    if bad:
        r["bad"] = bad
    return r

def _strip(g):
    g = dict(g)
    g.pop("text", None)
    g.pop("second", None)
    g["events"] = [e for e in g.get("events", []) if e[0] != "check_scope"]
    if "links" in g:
        g["links"] = sorted(g["links"], key=repr)
    return g

def _show(g):
    return {k: (sorted(v, key=repr) if isinstance(v, set) else v) for k, v in g.items()}

def run_cfg(ctx, cfg, entry, sample_mod=1, paired=False, focus=None, tag="rd"):
    from . import tlc
    res = tlc.run("Reader", cfg, dump=True, tag=tag, timeout=3000)
    ctx.add_tlc(res, cfg)
    if res.violated:
        ctx.spec_violation(res, cfg)
        tlc.cleanup(res)
        return
    blocks = tlaval.split_dump_blocks(res.dump_path)
    tlc.cleanup(res)
    results = core.pmap(worker, [(b, entry, sample_mod, paired) for b in blocks], chunksize=50)
    silent = 0
    for r in results:
        if r is None:
            continue
        if "harness_exception" in r:
            lf = core.library_failure(r)
            if lf is not None:
                ctx.violation(lf)
                continue
            raise tlc.MachineryError("replay worker failed: %s\n%s" % (r["harness_exception"], r["tb"]))
        ctx.count(r["n"])
        ctx.traces += 1
        if r["nt"]:
            ctx.nontriv(cfg[:10] + r["key"])
        for b in r.get("bad", []):
            if b["kind"] == "trace" and b["diff"] and b["diff"][0][0] == "hooks-silent":
                silent += 1
                continue
            if focus is not None and not focus(b):
                continue
            ctx.violation(b)
    if silent:
        from . import tlc as _t
        raise _t.MachineryError("the reader hooks did not fire in %d executions: is the OPENCYPHAL_PYDSDL_VERIF instrumentation "
                                "present in %s?" % (silent, core.REPO))
    return results

def run_c17(ctx):
    """Path half of C17: faults and @print in targets and dependencies."""
    def focus(b):
        if b["kind"] == "print-path":
            return True
        keep = [d for d in b["diff"] if d[0] in ("error path", "error line", "print events (line, text)",
                                                  "error class is not InvalidDefinitionError",
                                                  "the same call repeated on the same files gives another result / other @print events")]
        if not keep:
            return False
        b["diff"] = keep
        return True
    if ctx.tier == "quick":
        run_cfg(ctx, "Reader_files2_dups.cfg", "files", sample_mod=4, focus=focus)
        run_cfg(ctx, "Reader_ns2_bodies.cfg", "namespace", sample_mod=2, focus=focus)
        run_cfg(ctx, "Reader_ns3_c17.cfg", "namespace", sample_mod=12, focus=focus)
    else:
        run_cfg(ctx, "Reader_ns2_bodies.cfg", "namespace", focus=focus)
        run_cfg(ctx, "Reader_files2_bodies.cfg", "files", focus=focus)
        run_cfg(ctx, "Reader_files2_dups.cfg", "files", focus=focus)
        run_cfg(ctx, "Reader_ns3_bodies_lean.cfg", "namespace", sample_mod=6, focus=focus)
    ctx.exhaustive = False
