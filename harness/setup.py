"""SANY-parse every specification module (in parallel)."""
import sys, concurrent.futures
from . import tlc

def main():
    mods = sorted(p.stem for p in tlc.SPEC.glob("*.tla"))
    bad = []
    def one(m):
        try:
            tlc.sany(m)
            return None
        except tlc.MachineryError as ex:
            return str(ex)
    with concurrent.futures.ThreadPoolExecutor(8) as ex:
        for m, r in zip(mods, ex.map(one, mods)):
            if r:
                bad.append((m, r))
    for m, r in bad:
        print("SANY FAILED: %s\n%s" % (m, r), file=sys.stderr)
    print("setup: %d modules parsed, %d failed" % (len(mods), len(bad)))
    return 1 if bad else 0

if __name__ == "__main__":
    sys.exit(main())
