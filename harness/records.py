"""Binding B': run a *Records.tla checker over an ndjson file of call records; return the ids TLC rejects."""
from __future__ import annotations
import json, re, shutil
from . import tlc, tlaval, core

def check(ctx, module: str, records: list, tag: str, slices: int = 8, timeout: int = 3000):
    """records: list of JSON-able dicts with unique 'id'. Runs `slices` TLC processes in parallel. Returns set of bad ids."""
    import concurrent.futures
    if not records:
        return set()
    wd = tlc.workdir(tag)
    n = len(records)
    slices = max(1, min(slices, n // 2000 + 1))
    parts = [records[k::slices] for k in range(slices)]
    paths = []
    for k, part in enumerate(parts):
        p = wd / ("records-%d.ndjson" % k)
        with open(p, "w") as f:
            for r in part:
                f.write(json.dumps(r) + "\n")
        paths.append(p)
    def one(k):
        return tlc.run(module, module + ".cfg", workers=1, env={"RECORDS": str(paths[k])}, tag=tag, timeout=timeout)
    bad = set()
    with concurrent.futures.ThreadPoolExecutor(slices) as ex:
        for k, res in enumerate(ex.map(one, range(slices))):
            ctx.add_tlc(res, "%s[%d]" % (module, k))
            m = re.search(r'<<\s*"VERDICT",\s*(\d+),\s*(\{[^}]*\})\s*>>', res.out)
            if not m or int(m.group(1)) != len(parts[k]):
                raise tlc.MachineryError("no verdict from %s: %s" % (module, res.out[-1500:]))
            bad |= set(tlaval.parse(m.group(2)))
            tlc.cleanup(res)
    shutil.rmtree(wd, ignore_errors=True)
    return bad
