"""Convert parser / builder hook events (H1, H2) of arbitrary executions into the event sequence of TraceStatements.tla."""
from __future__ import annotations

def to_sequence(events):
    files = {}
    def fid(p):
        return files.setdefault(str(p), 1 + len(files))
    seq = []
    def add(ev, **kw):
        rec = {"id": len(seq) + 1, "ev": ev, "f": 0, "ok": False, "kind": "", "line": 0, "header": False, "attr": 0,
               "pending": False, "section": 0, "sections": []}
        rec.update(kw)
        seq.append(rec)
    for e in events:
        ev = e["ev"]
        if ev == "read_begin":
            add("begin", f=fid(e["file"]))
        elif ev == "read_end":
            add("end", f=fid(e["file"]), ok=bool(e["ok"]))
        elif ev == "stmt":
            add("stmt", kind=e["kind"], line=e["line"])
        elif ev == "flush":
            add("flush", line=e["line"], header=bool(e["header"]), attr=e["attr_line"])
        elif ev == "commit":
            add("commit", pending=bool(e["pending"]), section=e["section"])
        elif ev == "eol":
            add("eol", line=e["line"])
        elif ev == "finalize":
            add("finalize", pending=bool(e["pending"]), sections=[[s[0], s[1]] for s in e["sections"]])
    return seq, {v: k for k, v in files.items()}

def repo_suite_events(modules, timeout=1800):
    """Run the repository's own tests (given modules) with the hooks on; return the recorded events."""
    import json, os, subprocess, sys, tempfile
    from . import core, tlc
    fd, path = tempfile.mkstemp(prefix="verif-trace-", suffix=".ndjson")
    os.close(fd)
    try:
        env = dict(os.environ, OPENCYPHAL_PYDSDL_VERIF="1", OPENCYPHAL_PYDSDL_VERIF_TRACE=path, PYTHONDONTWRITEBYTECODE="1",
                   PYTHONPATH=str(core.REPO))
        p = subprocess.run([sys.executable, "-m", "pytest", "-q", "-p", "no:cacheprovider"] + list(modules), cwd=str(core.REPO), env=env,
                           capture_output=True, text=True, timeout=timeout)
        if p.returncode != 0:
            raise tlc.MachineryError("the repository's tests failed under tracing: %s" % p.stdout[-500:])
        with open(path) as f:
            return [json.loads(l) for l in f]
    finally:
        os.unlink(path)

def validate_events(ctx, evs, label, kind="statement-trace", texts=None):
    """Binding B: every recorded parser / builder step of the events is judged by TLC (TraceStatements.tla)."""
    import json, re, shutil
    from . import tlc, tlaval
    seq, files = to_sequence(evs)
    if not any(e["ev"] == "stmt" for e in seq):
        raise tlc.MachineryError("the statement hooks did not fire (%s)" % label)
    wd = tlc.workdir("c03rt")
    rp = wd / "trace.ndjson"
    rp.write_text("\n".join(json.dumps(x) for x in seq) + "\n")
    res = tlc.run("TraceStatements", "TraceStatements.cfg", workers=1, env={"RECORDS": str(rp)}, tag="c03rt", timeout=1800)
    ctx.add_tlc(res, "TraceStatements")
    m = re.search(r'<<\s*"VERDICT",\s*(\d+),\s*(\{[^}]*\})\s*>>', res.out)
    if not m or int(m.group(1)) != len(seq):
        raise tlc.MachineryError("no verdict from TraceStatements: %s" % res.out[-800:])
    for b in sorted(tlaval.parse(m.group(2)))[:30]:
        lo = max(0, b - 4)
        rec = {"kind": kind, "case": label,
               "diff": [("recorded parser / builder step contradicts the statement machine", seq[b - 1],
                         "preceding steps", [(x["ev"], x["kind"], x["line"]) for x in seq[lo:b - 1]])]}
        if texts is not None:
            # the text of the read the step belongs to (the n-th outermost read of the corpus)
            n = sum(1 for x in seq[:b] if x["ev"] == "begin") - 1
            if 0 <= n < len(texts):
                rec["text"] = texts[n]
        ctx.violation(rec)
    tlc.cleanup(res)
    shutil.rmtree(wd, ignore_errors=True)
    reads = sum(1 for e in seq if e["ev"] == "begin")
    ctx.traces += reads
    ctx.count(len(seq))
    return {"events": len(seq), "reads": reads, "statements": sum(1 for e in seq if e["ev"] == "stmt")}

def validate_repo_suite(ctx, kind="statement-trace"):
    """Binding B over the repository's own tests."""
    evs = repo_suite_events(["pydsdl/_test.py", "pydsdl/_namespace.py", "pydsdl/_namespace_reader.py", "pydsdl/_dsdl_definition.py",
                             "pydsdl/_data_type_builder.py", "pydsdl/_parser.py"])
    ctx.extra["repository_statement_trace"] = validate_events(ctx, evs, "repository tests", kind)
