SPECIFICATION SSpec
CONSTANTS Universe = "deep" Growth = 1 Mode = "layout"
INVARIANT TwinsStayDifferent
INVARIANT SessionSymbolic
CHECK_DEADLOCK FALSE
