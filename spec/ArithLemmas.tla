---------------------------- MODULE ArithLemmas ----------------------------
(* Unbounded arithmetic facts behind the solver's reductions, for Apalache (SMT; all natural k, d, x, r):          *)
(*   EquivK(k, d) = IF k < 2d THEN k ELSE d + k % d  is congruent to k modulo d, never above k, and below 2d      *)
(*   whenever k >= 2d - so the count a repetition is answered with does not grow with k;                           *)
(*   rounding up to a multiple of r commutes with adding a multiple of r.                                          *)
EXTENDS Integers

VARIABLES
  \* @type: Int;
  k,
  \* @type: Int;
  d,
  \* @type: Int;
  x,
  \* @type: Int;
  r,
  \* @type: Int;
  m

EquivK(kk, dd) == IF kk < 2 * dd THEN kk ELSE dd + (kk % dd)
Pad(y, rr) == ((y + rr - 1) \div rr) * rr

Init == /\ k \in Nat /\ d \in Nat /\ d > 0
        /\ x \in Nat /\ r \in Nat /\ r > 0 /\ m \in Nat
Next == UNCHANGED <<k, d, x, r, m>>

EquivKLemma ==
  LET e == EquivK(k, d) IN
    /\ e % d = k % d
    /\ e <= k
    /\ (k >= 2 * d => e >= d /\ e < 2 * d)
PadShift == Pad(x + m * r, r) = Pad(x, r) + m * r
PadIdem == Pad(Pad(x, r), r) = Pad(x, r) /\ Pad(x, r) >= x /\ Pad(x, r) < x + r /\ Pad(x, r) % r = 0
=============================================================================
