SPECIFICATION BSpec
CONSTANTS Universe = "flat" Growth = 1 Mode = "layout"
INVARIANT BoundaryWidth
INVARIANT LeastHolds
CHECK_DEADLOCK FALSE
