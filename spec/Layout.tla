------------------------------- MODULE Layout -------------------------------
(***************************************************************************)
(* Enumeration of the type universe for C02 (layout) and C08 (offsets and  *)
(* intrinsics), with the design checks that pydsdl's pairwise symbolic     *)
(* aggregation equals the Specification's declarative rule.                *)
(* case = a type record grown operator by operator; out = its layout.      *)
(***************************************************************************)
EXTENDS LayoutOps

CONSTANTS Universe,   \* "flat": every primitive width, one growth step; "deep": small widths, Growth steps
          Growth,
          Mode        \* "layout" (C02) or "offsets" (C08)

VARIABLES ph, case, out
vars == <<ph, case, out>>

U(n, m) == [k |-> "u", n |-> n, m |-> m]
I(n)    == [k |-> "i", n |-> n]
F(n, m) == [k |-> "f", n |-> n, m |-> m]
V(n)    == [k |-> "void", n |-> n]
Bool    == [k |-> "bool"]
Fix(e, c) == [k |-> "fix", e |-> e, c |-> c]
Var(e, c) == [k |-> "var", e |-> e, c |-> c]
St(f)   == [k |-> "st", f |-> f]
Un(f)   == [k |-> "un", f |-> f]
Del(t, x) == [k |-> "del", inner |-> t, x |-> x]

PrimsAll == {Bool} \cup { U(n, m) : n \in 1..64, m \in {"s", "t"} } \cup { I(n) : n \in 2..64 }
            \cup { F(n, m) : n \in {16, 32, 64}, m \in {"s", "t"} } \cup { V(n) : n \in 1..64 }
\* (the last entry: two variants whose sets differ but agree in min, max and residues mod 32)
PrimsSmall == { Bool, U(3, "s"), U(8, "t"), U(12, "s"), I(13), F(16, "s"), V(5),
                Un(<<Var(U(64, "s"), 2), Var(U(32, "s"), 4)>>), St(<<Var(St(<<U(8, "s")>>), 2), U(3, "s")>>) }
Comp == St(<<U(8, "s")>>)                       \* a byte-aligned composite sibling
Sibs == { Bool, U(4, "s"), U(12, "s"), V(3), Comp, Var(U(12, "s"), 2) }
Sibs2 == { U(4, "s"), Comp }
Caps == {1, 2, 3}
\* the last two: large literal sets of equal size that agree in their 16 smallest and 16 largest elements
BigBaseA == { 8 * j : j \in 0..39 }
BigBaseB == (BigBaseA \ {160, 168}) \cup {161, 170}
Bases == << {0}, {8}, {1}, {0, 4, 8}, {3, 16}, {7, 9}, {0, 64}, {0, 32, 64}, BigBaseA, BigBaseB >>

NonVoid(t) == t.k # "void"
Elem(t) == t.k \notin {"void", "fix", "var"}     \* DSDL arrays take scalar element types; void cannot be an element
Wraps(t) ==
     (IF Elem(t) THEN { Fix(t, c) : c \in Caps } \cup { Var(t, c) : c \in Caps } ELSE {})
  \cup { St(<<t>>) }
  \cup { St(<<s, t>>) : s \in Sibs } \cup { St(<<t, s>>) : s \in Sibs }
  \cup { St(<<s, t, s2>>) : s \in Sibs, s2 \in Sibs2 }
  \* four fields: a sub-byte field, t, a composite (implicitly padded to a byte), and a trailing sub-byte field that makes
  \* the position of everything before it visible in the set
  \cup { St(<<s, t, Comp, Bool>>) : s \in {Bool, U(12, "s")} }
  \cup (IF NonVoid(t)
        THEN { Un(<<t, s>>) : s \in { x \in Sibs : NonVoid(x) } } \cup { Un(<<s, t>>) : s \in { x \in Sibs : NonVoid(x) } }
             \cup { Un(<<s, t, s2>>) : s \in { x \in Sibs : NonVoid(x) }, s2 \in Sibs2 }
        ELSE {})
  \cup (IF t.k \in {"st", "un"}
        THEN LET m == MaxOf(BLS(t)) IN { Del(t, m), Del(t, m + 8), Del(t, m + 24) }
        ELSE {})
  \* arrays of composites as fields behind a field that ends off a byte boundary (the array inherits alignment 8)
  \cup (IF IsComposite(t)
        THEN { St(<<s, Fix(t, 2)>>) : s \in {Bool, U(12, "s")} } \cup { St(<<s, Var(t, 2), Bool>>) : s \in {Bool, U(12, "s")} }
             \cup { Un(<<Bool, Var(t, 2)>>) }
        ELSE {})

LayoutOf(t) ==
  [bls |-> BLS(t), align |-> Align(t),
   extent |-> IF IsComposite(t) THEN Extent(t) ELSE 0,
   prefix |-> IF t.k = "var" THEN PrefixW(t.c) ELSE 0,
   tag |-> IF t.k = "un" THEN TagW(Len(t.f)) ELSE IF t.k = "del" /\ t.inner.k = "un" THEN TagW(Len(t.inner.f)) ELSE 0,
   header |-> IF t.k = "del" THEN HeaderW ELSE 0,
   wrapper |-> BLS(St(<<t>>))]          \* the set of the one-field structure the harness reads the type through
Inner(t) == IF t.k = "del" THEN t.inner ELSE t
OffsetsOf(t) ==
  IF IsComposite(t)
  THEN [offs |-> [b \in DOMAIN Bases |-> Offsets(t, Bases[b])],
        after |-> IF Inner(t).k = "st" THEN [n \in 0..Len(Inner(t).f) |-> OffsetAfter(Inner(t), n)]
                  ELSE <<OffsetAfter(Inner(t), Len(Inner(t).f))>>,
        bls |-> BLS(t), extent |-> Extent(t), elems |-> <<>>]
  ELSE IF t.k = "fix"
  THEN [offs |-> <<>>, after |-> <<>>, bls |-> BLS(t), extent |-> 0,
        elems |-> [b \in DOMAIN Bases |-> ElemOffsets(t, Bases[b])]]
  ELSE [offs |-> <<>>, after |-> <<>>, bls |-> BLS(t), extent |-> 0, elems |-> <<>>]
OutOf(t) == IF Mode = "layout" THEN LayoutOf(t) ELSE OffsetsOf(t)

Init == ph = 0 /\ case = Bool /\ out = OutOf(Bool)
Pick == /\ ph = 0
        /\ \E t \in (IF Universe = "flat" THEN PrimsAll ELSE PrimsSmall) : case' = t /\ out' = OutOf(t)
        /\ ph' = 1
Grow == /\ ph >= 1 /\ ph <= Growth
        /\ \E t \in Wraps(case) : case' = t /\ out' = OutOf(t)
        /\ ph' = ph + 1
Next == Pick \/ Grow
Spec == Init /\ [][Next]_vars

\* Design check: the symbolic aggregation of the implementation has exactly the declared meaning
SymbolicEqualsDeclared == Expand(BLSsym(case)) = BLS(case)
SolverOnLayout == SolverExactFor8(BLSsym(case))
LengthsAligned == LenMultipleOfAlign(case) /\ CompositeByteAligned(case)
SealedExtentIsLongest == case.k \in {"st", "un"} => Extent(case) = MaxOf(BLS(case))
DelimitedFromExtentOnly ==
  case.k = "del" => BLS(case) = { HeaderW + 8 * j : j \in 0..(case.x \div 8) } /\ case.x >= MaxOf(BLS(case.inner))
\* offsets: every field start is aligned for its type; the last offset plus the last field, padded, is the type's set
OffsetsConsistent ==
  case.k = "st" =>
     LET o == Offsets(case, {0}) n == Len(case.f) IN
       /\ \A j \in DOMAIN case.f : \A x \in o[j] : x % Align(case.f[j]) = 0
       /\ PadSet(PlusSet(o[n], BLS(case.f[n])), 8) = BLS(case)
       /\ \A j \in 1..n : PadSet(OffsetAfter(case, j - 1), Align(case.f[j])) = o[j]

-----------------------------------------------------------------------------
(* Sessions: two types built one after the other in one process.  A cache keyed by something coarser than the type  *)
(* (e.g. the approximate equality of bit length sets: min, max, residues modulo 32) would hand the second type the  *)
(* first one's layout.  TLC selects the pairs of element types whose sets differ although their approximations      *)
(* coincide ("twins"), wraps both the same way, and fixes the order in which the two definitions are read.          *)
ApproxKey(t) == LET B == BLS(t) IN <<MinOf(B), MaxOf(B), ModSet(B, 32)>>
TwinPool(dummy) ==
     { St(<<Var(U(w, "s"), c)>>) : w \in {8, 16, 32, 64}, c \in 1..4 }
  \cup { St(<<Var(U(w, "s"), c), V(8)>>) : w \in {16, 32, 64}, c \in 1..2 }
  \cup { St(<<Var(U(w, "s"), 1), Var(U(w, "s"), 1)>>) : w \in {16, 32} }
  \cup { Un(<<Var(U(64, "s"), 2), Var(U(32, "s"), 4)>>), Un(<<Var(U(64, "s"), 2), U(8, "s")>>), Un(<<U(64, "s"), U(32, "s"), U(8, "s")>>),
          Un(<<U(64, "s"), U(8, "s")>>) }
SessionWraps(t) == << Fix(t, 2), Var(t, 2), Var(t, 3), St(<<t, U(8, "s")>>), Un(<<t, Bool>>), St(<<Bool, Var(t, 2)>>), Del(St(<<t>>), MaxOf(BLS(St(<<t>>))) + 8) >>
SInit == ph = 0 /\ case = [a |-> Bool] /\ out = 0
SPickA == ph = 0 /\ \E a \in TwinPool(0) : case' = [a |-> a] /\ out' = 0 /\ ph' = 1
SPickB == /\ ph = 1
          /\ \E b \in TwinPool(0) : \E wa \in DOMAIN SessionWraps(b), wb \in DOMAIN SessionWraps(b), first \in {"a", "b"} :
               /\ b # case.a /\ ApproxKey(b) = ApproxKey(case.a) /\ BLS(b) # BLS(case.a)
               /\ case' = [a |-> case.a, b |-> b, wa |-> SessionWraps(case.a)[wa], wb |-> SessionWraps(b)[wb], first |-> first]
               /\ out' = [la |-> LayoutOf(SessionWraps(case.a)[wa]), lb |-> LayoutOf(SessionWraps(b)[wb])]
          /\ ph' = 2
SSpec == SInit /\ [][SPickA \/ SPickB]_vars
\* the two wrapped types are told apart by their sets whenever the wraps are the same (nothing collapses twins)
TwinsStayDifferent == ph = 2 /\ case.wa.k = case.wb.k /\ case.wa.k \in {"fix", "var"} /\ case.wa.c = case.wb.c => out.la.bls # out.lb.bls
SessionSymbolic == ph = 2 => Expand(BLSsym(case.wa)) = BLS(case.wa) /\ Expand(BLSsym(case.wb)) = BLS(case.wb)

-----------------------------------------------------------------------------
(* Boundary enumeration: capacities and variant counts by their bit length *)
BInit == ph = 0 /\ case = [kind |-> "cap", b |-> 1, hi |-> FALSE, extra |-> 0] /\ out = LeastStd(1)
BNext == /\ ph = 0
         /\ \E kind \in {"cap", "variants"}, b \in 1..64, hi \in BOOLEAN, extra \in {0, 1, 300} :
               /\ kind = "cap" => extra = 0
               /\ case' = [kind |-> kind, b |-> b, hi |-> hi, extra |-> extra]
               /\ out' = LeastStd(b)
         /\ ph' = 1
BSpec == BInit /\ [][BNext]_vars
\* the width chosen is the least standard width that holds b bits (checked for every capacity TLC can represent)
LeastHolds == \A c \in 1..70000 : PrefixLeast(c)
BoundaryWidth == out \in {8, 16, 32, 64} /\ case.b <= out /\ (out > 8 => case.b > out \div 2)
=============================================================================
