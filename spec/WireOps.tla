------------------------------ MODULE WireOps ------------------------------
(***************************************************************************)
(* The Cyphal wire format for DSDL types as pure operators on bit          *)
(* sequences (Seq({0,1}), least significant bit first within a byte,       *)
(* bytes in order): the encoder Enc, the total decoder Dec with implicit   *)
(* truncation and implicit zero extension, cast modes, defaults.           *)
(*                                                                         *)
(* (A union value is the pair <<variant index, value>>: TLC orders tuples   *)
(* by their first component, so variants of different kinds never get      *)
(* compared with each other inside a set.)                                 *)
(* Abstract values: bool -> BOOLEAN; integers -> Int; float -> its n-bit   *)
(* pattern as a natural (IEEE-754 conversion is not modelled); void -> 0;  *)
(* arrays -> sequences; structure -> sequence of field values (one per     *)
(* field, paddings included as 0); union -> <<j, v>> with j               *)
(* the 1-based variant index; delimited -> the inner value.                *)
(***************************************************************************)
EXTENDS LayoutOps

RECURSIVE Pow2(_)
Pow2(n) == IF n = 0 THEN 1 ELSE 2 * Pow2(n - 1)

RECURSIVE Bits(_, _)
Bits(v, n) == IF n = 0 THEN <<>> ELSE <<v % 2>> \o Bits(v \div 2, n - 1)      \* LSB first; v >= 0
RECURSIVE Zeros(_)
Zeros(n) == IF n = 0 THEN <<>> ELSE <<0>> \o Zeros(n - 1)
PadLen(off, a) == (a - (off % a)) % a

\* cast of an integer to the representable range of its type
CastU(t, v) == IF t.m = "s" THEN (IF v < 0 THEN 0 ELSE IF v > Pow2(t.n) - 1 THEN Pow2(t.n) - 1 ELSE v)
               ELSE v % Pow2(t.n)                                            \* truncated: wraps (floor modulo)
CastI(t, v) == LET lo == 0 - Pow2(t.n - 1) hi == Pow2(t.n - 1) - 1 IN IF v < lo THEN lo ELSE IF v > hi THEN hi ELSE v

RECURSIVE Enc(_, _, _), EncSeq(_, _, _, _), EncFields(_, _, _, _)
\* elements of an array, all of type e, written one after another (element sizes are multiples of the alignment)
EncSeq(e, vs, off, j) ==
  IF j > Len(vs) THEN <<>>
  ELSE LET b == Enc(e, vs[j], off) IN b \o EncSeq(e, vs, off + Len(b), j + 1)
\* fields of a structure: each preceded by padding to its alignment
EncFields(f, vs, off, j) ==
  IF j > Len(f) THEN <<>>
  ELSE LET pad == Zeros(PadLen(off, Align(f[j])))
           b == Enc(f[j], vs[j], off + Len(pad))
       IN pad \o b \o EncFields(f, vs, off + Len(pad) + Len(b), j + 1)
Enc(t, v, off) ==
  CASE t.k = "bool" -> <<IF v THEN 1 ELSE 0>>
    [] t.k = "u"    -> Bits(CastU(t, v), t.n)
    [] t.k = "i"    -> Bits(CastI(t, v) % Pow2(t.n), t.n)                    \* two's complement
    [] t.k = "f"    -> Bits(v, t.n)
    [] t.k = "void" -> Zeros(t.n)
    [] t.k = "fix"  -> EncSeq(t.e, v, off, 1)
    [] t.k = "var"  -> Bits(Len(v), PrefixW(t.c)) \o EncSeq(t.e, v, off + PrefixW(t.c), 1)
    [] t.k = "st"   -> LET b == EncFields(t.f, v, off, 1) IN b \o Zeros(PadLen(off + Len(b), 8))
    [] t.k = "un"   -> LET w == TagW(Len(t.f))
                           b == Bits(v[1] - 1, w) \o Enc(t.f[v[1]], v[2], off + w)
                       IN b \o Zeros(PadLen(off + Len(b), 8))
    [] t.k = "del"  -> LET b == Enc(t.inner, v, 0) IN Bits(Len(b) \div 8, HeaderW) \o b

\* top level: a delimited type is written without its header unless asked for
EncTop(t, v, hdr) == IF t.k = "del" /\ ~hdr THEN Enc(t.inner, v, 0) ELSE Enc(t, v, 0)

RECURSIVE ByteVal(_, _, _)
ByteVal(bits, k, i) == IF i = 8 THEN 0 ELSE (IF 8 * k + i + 1 <= Len(bits) THEN bits[8 * k + i + 1] ELSE 0) * Pow2(i) + ByteVal(bits, k, i + 1)
ToBytes(bits) == [k \in 1..((Len(bits) + 7) \div 8) |-> ByteVal(bits, k - 1, 0)]
RECURSIVE BytesToBits(_)
BytesToBits(bs) == IF Len(bs) = 0 THEN <<>> ELSE Bits(Head(bs), 8) \o BytesToBits(Tail(bs))

\* the value a reader obtains for a written value: casts applied
RECURSIVE Canon(_, _)
Canon(t, v) ==
  CASE t.k = "u" -> CastU(t, v)
    [] t.k = "i" -> CastI(t, v)
    [] t.k \in {"bool", "f", "void"} -> v
    [] t.k \in {"fix", "var"} -> [j \in DOMAIN v |-> Canon(t.e, v[j])]
    [] t.k = "st" -> [j \in DOMAIN t.f |-> Canon(t.f[j], v[j])]
    [] t.k = "un" -> <<v[1], Canon(t.f[v[1]], v[2])>>
    [] t.k = "del" -> Canon(t.inner, v)

\* default value of a type: zero / empty / first variant
RECURSIVE Default(_)
Default(t) ==
  CASE t.k = "bool" -> FALSE
    [] t.k \in {"u", "i", "f", "void"} -> 0
    [] t.k = "fix" -> [j \in 1..t.c |-> Default(t.e)]
    [] t.k = "var" -> <<>>
    [] t.k = "st" -> [j \in DOMAIN t.f |-> Default(t.f[j])]
    [] t.k = "un" -> <<1, Default(t.f[1])>>
    [] t.k = "del" -> Default(t.inner)

-----------------------------------------------------------------------------
(* The reader: [data, off, lim]; lim = -1 for the unbounded top-level reader, otherwise the absolute position   *)
(* at which the enclosing delimited payload ends.  Bits at or beyond the end of the data or the limit read as   *)
(* zero (implicit zero extension / the payload boundary); reading never fails.                                  *)

Reader(data) == [data |-> data, off |-> 0, lim |-> 0 - 1]
BitAt(r, i) == IF i < Len(r.data) /\ (r.lim < 0 \/ i < r.lim) THEN r.data[i + 1] ELSE 0
\* Value of the n bits at the current position.  TLC's integers are 32-bit: a read with any of the bits 24.. set
\* yields Huge (2^24), which is larger than every capacity, variant count and data length of the universe, so the
\* comparisons made on prefixes, tags and headers are unaffected; integer FIELDS of the universe are at most 16 bits.
Huge == 16777216
RECURSIVE ReadLow(_, _, _)
ReadLow(r, n, i) == IF i = n THEN 0 ELSE BitAt(r, r.off + i) * Pow2(i) + ReadLow(r, n, i + 1)
ReadVal(r, n, i) == IF n > 24 /\ \E j \in 24..(n - 1) : BitAt(r, r.off + j) = 1 THEN Huge ELSE ReadLow(r, IF n > 24 THEN 24 ELSE n, i)
Skip(r, n) == [r EXCEPT !.off = @ + n]
AlignTo(r, a) == Skip(r, PadLen(r.off, a))
Remaining(r) == LET e == IF r.lim < 0 THEN Len(r.data) ELSE r.lim IN IF e > r.off THEN e - r.off ELSE 0

Good(v, r) == [ok |-> TRUE, v |-> v, r |-> r]
Bad(e) == [ok |-> FALSE, err |-> e]

RECURSIVE Dec(_, _), DecSeq(_, _, _, _), DecFields(_, _, _, _)
DecSeq(e, r, n, acc) ==
  IF n = 0 THEN Good(acc, r)
  ELSE LET d == Dec(e, r) IN IF ~d.ok THEN d ELSE DecSeq(e, d.r, n - 1, Append(acc, d.v))
DecFields(f, r, j, acc) ==
  IF j > Len(f) THEN Good(acc, r)
  ELSE LET d == Dec(f[j], AlignTo(r, Align(f[j]))) IN
       IF ~d.ok THEN d ELSE DecFields(f, d.r, j + 1, Append(acc, d.v))
Dec(t, r) ==
  CASE t.k = "bool" -> Good(ReadVal(r, 1, 0) = 1, Skip(r, 1))
    [] t.k \in {"u", "f"} -> Good(ReadVal(r, t.n, 0), Skip(r, t.n))
    [] t.k = "i" -> LET raw == ReadVal(r, t.n, 0) IN
                    Good(IF raw >= Pow2(t.n - 1) THEN raw - Pow2(t.n) ELSE raw, Skip(r, t.n))
    [] t.k = "void" -> Good(0, Skip(r, t.n))
    [] t.k = "fix" -> DecSeq(t.e, r, t.c, <<>>)
    [] t.k = "var" -> LET n == ReadVal(r, PrefixW(t.c), 0) IN
                      IF n > t.c THEN Bad("ArrayLength") ELSE DecSeq(t.e, Skip(r, PrefixW(t.c)), n, <<>>)
    [] t.k = "st" -> LET d == DecFields(t.f, r, 1, <<>>) IN IF ~d.ok THEN d ELSE Good(d.v, AlignTo(d.r, 8))
    [] t.k = "un" -> LET w == TagW(Len(t.f)) tag == ReadVal(r, w, 0) IN
                     IF tag >= Len(t.f) THEN Bad("UnionTag")
                     ELSE LET d == Dec(t.f[tag + 1], Skip(r, w)) IN
                          IF ~d.ok THEN d ELSE Good(<<tag + 1, d.v>>, AlignTo(d.r, 8))
    [] t.k = "del" -> LET nbytes == ReadVal(r, HeaderW, 0) r1 == Skip(r, HeaderW) IN
                      IF 8 * nbytes > Remaining(r1) THEN Bad("DelimiterHeader")
                      ELSE LET d == Dec(t.inner, [r1 EXCEPT !.lim = r1.off + 8 * nbytes]) IN
                           IF ~d.ok THEN d
                           ELSE Good(d.v, [r1 EXCEPT !.off = r1.off + 8 * nbytes])   \* the parent skips the payload

\* what deserialize(T, b) returns: the value, or the kind of error
DecTop(t, bits, hdr) ==
  LET d == IF t.k = "del" /\ ~hdr THEN Dec(t.inner, Reader(bits)) ELSE Dec(t, Reader(bits)) IN
  IF d.ok THEN [ok |-> TRUE, v |-> d.v] ELSE d

(* Value sets used by the enumerating modules *)
\* value sets.  Full: everything interesting for a primitive; Few: two or three values for nested positions
FullInts(n, signed) ==
  IF signed THEN { 0 - Pow2(n - 1) - 1, 0 - Pow2(n - 1), 0 - 1, 0, 1, Pow2(n - 1) - 1, Pow2(n - 1), Pow2(n) }
  ELSE (IF n <= 3 THEN 0..(Pow2(n) - 1) ELSE {0, 1, Pow2(n - 1), Pow2(n) - 1}) \cup { 0 - 1, Pow2(n), Pow2(n) + 1, 2 * Pow2(n) - 1 }
FloatPatterns == { 0, 15360, 49152, 31743 }          \* 0.0, 1.0, -2.0, 65504.0 as binary16 patterns
RECURSIVE Vals(_, _), ProdVals(_, _)
\* all sequences <<v1..vn>> with vj a (few-)value of field j
ProdVals(f, n) == IF n = 0 THEN {<<>>} ELSE { Append(p, x) : p \in ProdVals(f, n - 1), x \in Vals(f[n], FALSE) }
SeqsOf(S, n) == [1..n -> S]
Vals(t, full) ==
  CASE t.k = "bool" -> BOOLEAN
    [] t.k = "u" -> IF full THEN FullInts(t.n, FALSE) ELSE { 1, Pow2(t.n) - 1, Pow2(t.n) + 1 }
    [] t.k = "i" -> IF full THEN FullInts(t.n, TRUE) ELSE { 0 - 1, Pow2(t.n - 1) - 1, 0 - Pow2(t.n - 1) - 1 }
    [] t.k = "f" -> IF full THEN FloatPatterns ELSE { 15360, 49152 }
    [] t.k = "void" -> {0}
    [] t.k = "fix" -> SeqsOf(Vals(t.e, FALSE), t.c)
    [] t.k = "var" -> UNION { SeqsOf(Vals(t.e, FALSE), n) : n \in 0..t.c }
    [] t.k = "st" -> IF Len(t.f) = 1 THEN { <<x>> : x \in Vals(t.f[1], full) } ELSE ProdVals(t.f, Len(t.f))
    [] t.k = "un" -> UNION { { <<j, x>> : x \in Vals(t.f[j], FALSE) } : j \in DOMAIN t.f }
    [] t.k = "del" -> Vals(t.inner, full)


\* a leaner value set: two values per integer (one of them out of range), empty and full arrays
RECURSIVE Vals2(_), ProdVals2(_, _)
ProdVals2(f, n) == IF n = 0 THEN {<<>>} ELSE { Append(p, x) : p \in ProdVals2(f, n - 1), x \in Vals2(f[n]) }
Vals2(t) ==
  CASE t.k = "bool" -> {TRUE}
    [] t.k = "u" -> { 1, Pow2(t.n) + 2 }
    [] t.k = "i" -> { 0 - 1, Pow2(t.n - 1) }
    [] t.k = "f" -> { 15360 }
    [] t.k = "void" -> {0}
    [] t.k = "fix" -> SeqsOf(Vals2(t.e), t.c)
    [] t.k = "var" -> {<<>>} \cup SeqsOf(Vals2(t.e), t.c)
    [] t.k = "st" -> ProdVals2(t.f, Len(t.f))
    [] t.k = "un" -> UNION { { <<j, x>> : x \in Vals2(t.f[j]) } : j \in DOMAIN t.f }
    [] t.k = "del" -> Vals2(t.inner)

(* Positions at which the fields of a structure / the variant of a union start in Enc(t, v, off) (C08): *)
RECURSIVE FieldStarts(_, _, _, _)
FieldStarts(f, vs, off, j) ==
  IF j > Len(f) THEN <<>>
  ELSE LET p == off + PadLen(off, Align(f[j])) IN <<p>> \o FieldStarts(f, vs, p + Len(Enc(f[j], vs[j], p)), j + 1)
StartsOf(t, v, off) ==     \* sequence: start position of field j (structure) / of the active variant (union)
  CASE t.k = "st" -> FieldStarts(t.f, v, off, 1)
    [] t.k = "un" -> <<off + TagW(Len(t.f))>>
    [] t.k = "del" -> IF t.inner.k = "st" THEN FieldStarts(t.inner.f, v, off + HeaderW, 1)
                      ELSE <<off + HeaderW + TagW(Len(t.inner.f))>>
=============================================================================
