SPECIFICATION Spec
CONSTANTS Names = {"T", "Tabby_2"} Vers <- VersQuick SubjectPorts = {0, 7509} ServicePorts = {0, 430}
CONSTANTS AsFoundJoin = TRUE AsFoundOrder = TRUE
INVARIANT NeverWrongIdentity
INVARIANT PromisedSucceeds
CHECK_DEADLOCK FALSE
