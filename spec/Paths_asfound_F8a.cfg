SPECIFICATION Spec
CONSTANTS AsFoundJoin = TRUE AsFoundOrder = TRUE
INVARIANT NeverWrongIdentity
INVARIANT PromisedSucceeds
CHECK_DEADLOCK FALSE
