SPECIFICATION Spec
CONSTANTS
  Alphabet <- AlphaErrors
  AfterFailure <- AfterFail
  MaxLines = 5
  AsFoundNoFinalFlush = FALSE
  AsFoundDeferredLine = FALSE
INVARIANT OutIsResult
INVARIANT CommitOncePerStatement
INVARIANT NoLossNoDup
INVARIANT KindsMirror
INVARIANT DocAttached
INVARIANT HeaderMirror
INVARIANT FlagsMirror
INVARIANT PrintsMirror
INVARIANT RefsMirror
INVARIANT RefsComplete
INVARIANT AcceptIffValid
INVARIANT ErrLineIsStatementLine
INVARIANT PrintsBeforeError
INVARIANT NeutralInsert
INVARIANT FinalNewline
INVARIANT BlankVsEmptyStructure
CHECK_DEADLOCK FALSE
