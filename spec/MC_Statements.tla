---------------------------- MODULE MC_Statements ----------------------------
(* Alphabets for the model-checking configurations of Statements.tla. *)
EXTENDS Statements

L(k, c) == [k |-> k, c |-> c]
Both(ks) == { L(k, c) : k \in ks, c \in BOOLEAN }
Plain(ks) == { L(k, FALSE) : k \in ks }

\* structure / mirror focus: every well-formed kind, comments on the kinds that can own them
AlphaMirror == Both({"empty", "field", "const", "marker"}) \cup Plain({"blank", "pad", "union", "deprecated",
                 "sealed", "extent", "print", "offq"})
\* error-location focus
AlphaErrors == Both({"empty", "badconst"}) \cup Plain({"blank", "field", "const", "union", "offq", "sealed",
                 "extent", "assertfalse", "undef", "syntax", "print", "marker", "mlprint", "esprint", "bprint", "sprint"})
\* everything
AlphaAll == Both({"empty", "field", "const", "pad", "marker", "badconst", "sealed", "print"}) \cup
            Plain({"blank", "union", "deprecated", "extent", "assert", "offq", "assertfalse", "undef", "syntax", "mlprint", "esprint"})
\* identifier scope: constants of the same name in the request and the response part
AlphaScope == Plain({"empty", "kdef", "kuse", "kprint", "marker", "sealed"})
AfterFail == { L("empty", FALSE), L("field", FALSE), L("syntax", FALSE) }
=============================================================================
