SPECIFICATION Spec
CONSTANTS Growth = 2 Mode = "bytes" MaxBits = 8 Wide = FALSE Lean = FALSE
INVARIANT UniverseLegal
INVARIANT RoundTrip
INVARIANT LengthInBLS
INVARIANT WholeBytes
INVARIANT DefaultsSameAsZeros
INVARIANT OffsetsAreStarts
INVARIANT DecTotal
INVARIANT FixedPoint
INVARIANT TruncationIgnored
INVARIANT ZeroExtension
CHECK_DEADLOCK FALSE
