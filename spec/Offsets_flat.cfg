SPECIFICATION Spec
CONSTANTS Universe = "flat" Growth = 1 Mode = "offsets"
INVARIANT SymbolicEqualsDeclared
INVARIANT SolverOnLayout
INVARIANT LengthsAligned
INVARIANT SealedExtentIsLongest
INVARIANT DelimitedFromExtentOnly
INVARIANT OffsetsConsistent
CHECK_DEADLOCK FALSE
