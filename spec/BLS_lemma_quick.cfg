SPECIFICATION LemmaSpec
CONSTANTS LeafMax = 4 LeafCard = 2 KMax = 3 RMax = 4 DMax = 8 Growth = 2 LemmaD = 8 PoolLen = 1
INVARIANT Reduction
INVARIANT PeriodBase
INVARIANT RangeReduction
INVARIANT ResiduesSuffice
INVARIANT PadLcm
INVARIANT EquivKSame
INVARIANT CostIndependentOfK
INVARIANT CostBounded
CHECK_DEADLOCK FALSE
