SPECIFICATION Spec
CONSTANTS Universe = "deep" Growth = 3 Mode = "offsets"
INVARIANT SymbolicEqualsDeclared
INVARIANT SolverOnLayout
INVARIANT LengthsAligned
INVARIANT SealedExtentIsLongest
INVARIANT DelimitedFromExtentOnly
INVARIANT OffsetsConsistent
CHECK_DEADLOCK FALSE
