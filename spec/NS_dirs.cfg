SPECIFICATION DirsSpec
CONSTANTS MaxFiles = 3 AsFoundTopLevelLegacyOnly = FALSE
INVARIANT VerdictBySet
CHECK_DEADLOCK FALSE
