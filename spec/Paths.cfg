SPECIFICATION Spec
INVARIANT IdentityShape
INVARIANT DesignationIrrelevant
CHECK_DEADLOCK FALSE
