SPECIFICATION Spec
CONSTANTS AsFoundJoin = FALSE AsFoundOrder = FALSE
INVARIANT IdentityShape
INVARIANT PartsShape
INVARIANT DesignationIrrelevant
INVARIANT NeverWrongIdentity
INVARIANT PromisedSucceeds
CHECK_DEADLOCK FALSE
