SPECIFICATION Spec
CONSTANTS Triples = FALSE ChainLen = 3
INVARIANT LoopsDecideTheRules
INVARIANT OutIsConsistent
CHECK_DEADLOCK FALSE
