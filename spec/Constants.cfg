SPECIFICATION Spec
INVARIANT SymbolicMatchesExact
INVARIANT Monotone
CHECK_DEADLOCK FALSE
