SPECIFICATION ASpec
CONSTANTS Mode = "acc" AsFoundAlias = TRUE
INVARIANT ProjectionUnchanged
CHECK_DEADLOCK FALSE
