SPECIFICATION ASpec
CONSTANTS Mode = "acc" MaxSteps = 3 AsFoundAlias = TRUE
INVARIANT ProjectionUnchanged
CHECK_DEADLOCK FALSE
