------------------------------- MODULE Reader -------------------------------
(***************************************************************************)
(* Namespace reading and reference resolution of pydsdl                    *)
(* (_namespace.read_namespace / read_files, _namespace_reader,             *)
(* DSDLDefinition.read, DataTypeBuilder.resolve_versioned_data_type).      *)
(*                                                                         *)
(* Directories: 1 = the target root (root namespace "a"), 2 = a lookup     *)
(* root "b", 3 = a second lookup directory that also provides root         *)
(* namespace "a" (allowed by default); 5 = the lookup root "b" again, the  *)
(* file spelled with the legacy suffix / a port-ID prefix, so that one     *)
(* directory holds two files of one name and version.  A definition is     *)
(*   [dir, name, maj, min, refs, body]                                     *)
(* whose text is: one field per reference (line k refers refs[k]), then    *)
(* an optional body line (@print / failing @assert / garbage), then        *)
(* @sealed (absent for body "nomode").  A reference is                     *)
(*   [ns, name, maj, min]   ns = "rel" for a name without dots.            *)
(*                                                                         *)
(* ReadDef is implementation-shaped: cache hit -> return; remove the       *)
(* definitions equal (name + version) to the one being read from the       *)
(* lookup list (so the list strictly shrinks along the recursion stack:    *)
(* self references and cycles end as "not found");                         *)
(* resolve references in order, recursing with the SAME print handler      *)
(* (bound to the outermost target - the as-found behaviour F4b) and the    *)
(* shrunken list; errors get the innermost path and the line of the file   *)
(* in which they surface first.                                            *)
(* Closure / Resolve are the declarative counterpart used by invariants.   *)
(***************************************************************************)
EXTENDS Naturals, Sequences, FiniteSets, TLC

CONSTANTS MaxDefs,        \* number of definitions in a configuration
          SelfNamed,      \* TRUE: the pool also holds a definition whose short name equals its root namespace name (a.a)
          Lean,           \* TRUE: references limited to absolute ones (single or ordered pairs): graph shapes only
          DirSet,         \* directories in use (1 = target root a, 2 = lookup b, 3 = lookup a')
          Rich,           \* TRUE: full identity pool and reference pool
          Entry,          \* "namespace" (read_namespace on directory 1) or "files" (read_files on a target subset)
          Bodies,         \* body kinds offered to the one distinguished definition
          Dups,           \* TRUE (read_files only): one target may be listed a second time under another spelling of its path
          AsFoundTwoObjects,  \* TRUE reproduces F4a (target and lookup objects distinct: parsed twice)
          AsFoundPrintPath    \* TRUE reproduces F4b (print handler bound to the outermost target)

VARIABLES ph, case, out
vars == <<ph, case, out>>

NsOf(dir) == IF dir \in {2, 5} THEN "b" ELSE "a"
LowerOf(n) == CASE n = "X" -> "x" [] n = "Y" -> "y" [] n = "Z" -> "z" [] OTHER -> n      \* "a" is lower case already
Id(d) == [dir |-> d.dir, name |-> d.name, maj |-> d.maj, min |-> d.min]
SameNV(a, b) == NsOf(a.dir) = NsOf(b.dir) /\ a.name = b.name /\ a.maj = b.maj /\ a.min = b.min

\* sort key of dsdl_file_sort: (full name, -major, -minor); ties (same name and version in two directories) by dir
NameRank(d) == (IF NsOf(d.dir) = "a" THEN 0 ELSE 100) + (CASE d.name = "X" -> 1 [] d.name = "Y" -> 2 [] d.name = "Z" -> 3 [] OTHER -> 9)   \* "a.X" < "a.Y" < "a.a"
Before(a, b) == \/ NameRank(a) < NameRank(b)
                \/ NameRank(a) = NameRank(b) /\ a.maj > b.maj
                \/ NameRank(a) = NameRank(b) /\ a.maj = b.maj /\ a.min > b.min
                \/ NameRank(a) = NameRank(b) /\ a.maj = b.maj /\ a.min = b.min /\ a.dir < b.dir
RECURSIVE SortDefs(_)
SortDefs(S) == IF S = {} THEN <<>>
               ELSE LET m == CHOOSE x \in S : \A y \in S \ {x} : Before(x, y) IN <<m>> \o SortDefs(S \ {m})

-----------------------------------------------------------------------------
(* Resolution of one reference r made by definition d against a lookup list L (a set of definitions) *)
RefNs(d, r) == IF r.ns = "rel" THEN NsOf(d.dir) ELSE r.ns
Found(d, r, L) == { x \in L : NsOf(x.dir) = RefNs(d, r) /\ LowerOf(x.name) = LowerOf(r.name)
                              /\ x.maj = r.maj /\ x.min = r.min }
\* outcome: "missing" | "collision" | "case" | the definition
Outcome(d, r, L) ==
  LET F == Found(d, r, L) IN
  IF F = {} THEN [k |-> "missing"]
  ELSE IF Cardinality(F) > 1 THEN [k |-> "collision"]
  ELSE LET x == CHOOSE y \in F : TRUE IN
       IF x.name # r.name THEN [k |-> "case", def |-> x] ELSE [k |-> "ok", def |-> x]

NoErr == [e |-> FALSE]
Err(kind, path, line) == [e |-> TRUE, kind |-> kind, path |-> path, line |-> line]
\* reader state: cache (ids read successfully), loaded (ids whose text was parsed, in order), prints, err,
\* log: the sequence of steps (begin / resolve / print / end) - what the hooks of the implementation record (Binding B)
Log(s, e) == [s EXCEPT !.log = Append(@, e)]
S0 == [cache |-> {}, loaded |-> <<>>, prints |-> <<>>, err |-> NoErr, log |-> <<>>]

BodyLine(d) == Len(d.refs) + 1
\* Object populations: as found, targets and lookup definitions are distinct objects with separate caches ("T"/"L");
\* with one object per file there is a single population ("O").
Kind(asTarget) == IF AsFoundTwoObjects THEN (IF asTarget THEN "T" ELSE "L") ELSE "O"
RECURSIVE ReadDef(_, _, _, _, _), ReadRefs(_, _, _, _, _)
\* read definition d (object kind kd) with lookup list L, print handler bound to path hp, reader state s
ReadDef(d, L, hp, s, kd) ==
  IF s.err.e \/ <<kd, Id(d)>> \in s.cache THEN s                            \* cache hit
  ELSE
    LET L2 == { x \in L : ~SameNV(x, d) }                                   \* remove self (by name and version)
        s1 == Log([s EXCEPT !.loaded = Append(@, Id(d))], [e |-> "begin", id |-> Id(d)])
        EndOk(x) == Log(x, [e |-> "end", id |-> Id(d), ok |-> TRUE])
        EndBad(x) == Log(x, [e |-> "end", id |-> Id(d), ok |-> FALSE])
    IN IF d.body = "garbage"                                                \* the text does not parse: nothing is visited
       THEN EndBad([s1 EXCEPT !.err = Err("syntax", Id(d), BodyLine(d))])
       ELSE
         LET s2 == ReadRefs(d, L2, hp, s1, 1) IN
         IF s2.err.e THEN EndBad(s2)                                         \* the error unwinds through every open read
         ELSE CASE d.body = "print" ->
                     EndOk([Log(s2, [e |-> "print", id |-> Id(d), line |-> BodyLine(d)])
                              EXCEPT !.prints = Append(@, [in |-> Id(d), path |-> IF AsFoundPrintPath THEN hp ELSE Id(d),
                                                           line |-> BodyLine(d)]),
                                     !.cache = @ \cup {<<kd, Id(d)>>}])
                [] d.body = "assertfail" -> EndBad([s2 EXCEPT !.err = Err("assert", Id(d), BodyLine(d))])
                [] d.body = "nomode" -> EndBad([s2 EXCEPT !.err = Err("nomode", Id(d), 0)])      \* found at finalization: no line
                [] OTHER -> EndOk([s2 EXCEPT !.cache = @ \cup {<<kd, Id(d)>>}])
ReadRefs(d, L, hp, s, k) ==
  IF s.err.e \/ k > Len(d.refs) THEN s
  ELSE LET o == Outcome(d, d.refs[k], L)
           sl == Log(s, [e |-> "resolve", id |-> Id(d), k |-> k, found |-> { Id(x) : x \in Found(d, d.refs[k], L) }])
       IN
       CASE o.k = "missing"   -> [sl EXCEPT !.err = Err("undefined", Id(d), k)]
         [] o.k = "collision" -> [sl EXCEPT !.err = Err("collision", Id(d), k)]
         [] o.k = "case"      -> [sl EXCEPT !.err = Err("case", Id(d), k)]
         [] OTHER -> ReadRefs(d, L, hp, ReadDef(o.def, L, hp, sl, Kind(FALSE)), k + 1)

\* the target loop of _read_definitions (level 0): targets in sorted order, handler bound to each target's own path;
\* a target that was already read as a dependency (its lookup object is pooled) is only promoted, not read again
RECURSIVE ReadTargets(_, _, _, _)
ReadTargets(ts, k, L, s) ==
  IF s.err.e \/ k > Len(ts) THEN s
  ELSE LET t == ts[k] IN
       IF <<Kind(FALSE), Id(t)>> \in s.cache THEN ReadTargets(ts, k + 1, L, s)
       ELSE ReadTargets(ts, k + 1, L, ReadDef(t, L, Id(t), s, Kind(TRUE)))
CachedIds(s) == { e[2] : e \in s.cache }

-----------------------------------------------------------------------------
(* Declarative counterpart *)
Targets(c) == IF Entry = "namespace" THEN { d \in c.defs : d.dir = 1 } ELSE { d \in c.defs : Id(d) \in c.targets }
\* lookup set: every definition of every directory handed to the reader
AllDefs(c) == c.defs
\* direct references of d (resolved against everything but the definitions equal to d itself)
RefTargets(c, d) ==
  IF d.body = "garbage" THEN {}
  ELSE { o.def : o \in { Outcome(d, d.refs[k], { x \in AllDefs(c) : ~SameNV(x, d) }) : k \in DOMAIN d.refs } \cap
                     { [k |-> "ok", def |-> x] : x \in AllDefs(c) } }
RECURSIVE ReachFrom(_, _, _)
ReachFrom(c, S, n) == IF n = 0 THEN S ELSE ReachFrom(c, S \cup UNION { RefTargets(c, d) : d \in S }, n - 1)
Closure(c) == ReachFrom(c, Targets(c), MaxDefs)

LMinus(c, d) == { x \in AllDefs(c) : ~SameNV(x, d) }
Result(c) ==
  LET ts == SortDefs(Targets(c))
      s == ReadTargets(ts, 1, AllDefs(c), S0)
  IN IF s.err.e
     THEN [ok |-> FALSE, kind |-> s.err.kind, path |-> s.err.path, line |-> s.err.line, prints |-> s.prints,
           loaded |-> s.loaded, closure |-> { Id(d) : d \in Closure(c) }, log |-> s.log]
     ELSE [ok |-> TRUE,
           direct |-> [j \in DOMAIN ts |-> Id(ts[j])],
           transitive |-> LET st == SortDefs({ d \in c.defs : Id(d) \in CachedIds(s) /\ d \notin Targets(c) })
                          IN [j \in DOMAIN st |-> Id(st[j])],
           \* for every definition read: what each of its references resolved to
           links |-> UNION { { [from |-> Id(d), k |-> k, to |-> Id(Outcome(d, d.refs[k], LMinus(c, d)).def)]
                               : k \in DOMAIN d.refs } : d \in { x \in c.defs : Id(x) \in CachedIds(s) } },
           prints |-> s.prints, loaded |-> s.loaded, closure |-> { Id(d) : d \in Closure(c) }, log |-> s.log]

-----------------------------------------------------------------------------
(* Enumeration of configurations *)
Vers == IF Rich THEN { <<0, 1>>, <<0, 2>> } ELSE { <<0, 1>> }
IdPool == { [dir |-> d, name |-> n, maj |-> v[1], min |-> v[2]] : d \in DirSet, n \in {"X", "Y"}, v \in Vers }
          \cup { [dir |-> d, name |-> "X", maj |-> 0, min |-> 2] : d \in DirSet \cap {1, 2, 5} }
          \cup (IF SelfNamed THEN { [dir |-> 1, name |-> "a", maj |-> 0, min |-> 1] } ELSE {})
AbsRef(i) == [ns |-> NsOf(i.dir), name |-> i.name, maj |-> i.maj, min |-> i.min]
CaseRef(j) == [ns |-> NsOf(j.dir), name |-> LowerOf(j.name), maj |-> j.maj, min |-> j.min]
RelRef(j) == [ns |-> "rel", name |-> j.name, maj |-> j.maj, min |-> j.min]
RefPool(i, ids) ==
     { AbsRef(j) : j \in ids }                                              \* incl. a reference to itself
  \cup { [ns |-> "rel", name |-> j.name, maj |-> j.maj, min |-> j.min] : j \in { x \in ids : NsOf(x.dir) = NsOf(i.dir) } }
  \cup { [ns |-> NsOf(j.dir), name |-> LowerOf(j.name), maj |-> j.maj, min |-> j.min] : j \in { x \in ids : x # i } }
  \cup { [ns |-> "a", name |-> "Z", maj |-> 0, min |-> 1] }                 \* missing
  \cup { [ns |-> NsOf(j.dir), name |-> j.name, maj |-> j.maj, min |-> 7] : j \in { x \in ids : x # i } }   \* wrong version
RefChoices(i, ids) ==
  IF Lean THEN {<<>>} \cup { <<AbsRef(p)>> : p \in ids } \cup { <<AbsRef(p), AbsRef(q)>> : p \in ids, q \in ids } ELSE
  {<<>>} \cup { <<r>> : r \in RefPool(i, ids) }
  \cup { <<AbsRef(p), AbsRef(q)>> : p \in ids, q \in ids }
  \* the same definition referred to twice with different spellings (a memo keyed too coarsely would conflate them)
  \cup { <<AbsRef(p), CaseRef(p)>> : p \in { x \in ids : x # i } } \cup { <<CaseRef(p), AbsRef(p)>> : p \in { x \in ids : x # i } }
  \cup { <<AbsRef(p), RelRef(p)>> : p \in { x \in ids : x # i /\ NsOf(x.dir) = NsOf(i.dir) } }
  \cup { <<AbsRef(p), [AbsRef(p) EXCEPT !.min = 7]>> : p \in { x \in ids : x # i } }

Init == ph = 0 /\ case = [defs |-> {}, ids |-> {}] /\ out = 0
PickIds == /\ ph = 0
           /\ \E ids \in SUBSET IdPool :
                /\ Cardinality(ids) >= 1 /\ Cardinality(ids) <= MaxDefs
                /\ \E i \in ids : i.dir = 1
                /\ case' = [defs |-> {}, ids |-> ids]
           /\ out' = 0 /\ ph' = 1
\* give the next identity (in sort order) its references
AddDef == /\ ph = 1 /\ Cardinality(case.defs) < Cardinality(case.ids)
          /\ LET rest == { i \in case.ids : \A d \in case.defs : Id(d) # i }
                 i == SortDefs(rest)[1]
             IN \E rs \in RefChoices(i, case.ids) :
                  case' = [case EXCEPT !.defs = @ \cup {[dir |-> i.dir, name |-> i.name, maj |-> i.maj, min |-> i.min,
                                                       refs |-> rs, body |-> "ok"]}]
          /\ out' = 0 /\ ph' = 1
\* choose the distinguished body and (for read_files) the targets; this completes the case
Complete ==
  /\ ph = 1 /\ Cardinality(case.defs) = Cardinality(case.ids)
  /\ LET sd == SortDefs(case.defs) IN
     \E special \in 0..Len(sd), b \in Bodies :
       /\ (special = 0) = (b = "ok")
       /\ \E tg \in (IF Entry = "files" THEN { T \in SUBSET { Id(d) : d \in { x \in case.defs : x.dir = 1 } } : T # {} } ELSE {{}}) :
          \* the targets are a *set* of files: listing one of them twice, under whatever spelling, is the same call
          \E dup \in (IF Dups THEN {{}} \cup { {t} : t \in tg } ELSE {{}}) :
            LET ds == { IF special # 0 /\ sd[special] = d THEN [d EXCEPT !.body = b] ELSE d : d \in case.defs } IN
              /\ case' = [defs |-> ds, ids |-> case.ids, targets |-> tg, dup |-> dup]
              /\ out' = Result(case')
  /\ ph' = 2
Next == PickIds \/ AddDef \/ Complete
Spec == Init /\ [][Next]_vars

Done == ph = 2
-----------------------------------------------------------------------------
(* C09 *)
\* a resolved reference names exactly the definition with the completed name and exactly the version asked for
ResolvesExactly ==
  Done /\ out.ok =>
    \A l \in out.links :
      LET d == CHOOSE x \in case.defs : Id(x) = l.from  r == d.refs[l.k] IN
        /\ NsOf(l.to.dir) = RefNs(d, r) /\ l.to.name = r.name /\ l.to.maj = r.maj /\ l.to.min = r.min
\* missing, self-referential, cyclic, case-variant or ambiguous references never succeed
BadReferenceFails ==
  Done /\ out.ok =>
    \A d \in Closure(case) : \A k \in DOMAIN d.refs :
       Outcome(d, d.refs[k], { x \in AllDefs(case) : ~SameNV(x, d) }).k = "ok"
AcyclicWhenOk ==
  Done /\ out.ok => \A d \in Closure(case) : d \notin ReachFrom(case, RefTargets(case, d), MaxDefs)
(* C10 / C19 *)
DirectIsTargets == Done /\ out.ok => { out.direct[j] : j \in DOMAIN out.direct } = { Id(d) : d \in Targets(case) }
TransitiveIsClosureMinusTargets ==
  Done /\ out.ok => { out.transitive[j] : j \in DOMAIN out.transitive } = { Id(d) : d \in Closure(case) \ Targets(case) }
NoLoadOutsideClosure == Done => { out.loaded[j] : j \in DOMAIN out.loaded } \subseteq { Id(d) : d \in Closure(case) }
LoadedOncePerFile == Done /\ ~AsFoundTwoObjects => \A p, q \in DOMAIN out.loaded : p # q => out.loaded[p] # out.loaded[q]
\* replacing the body of a definition outside the closure changes nothing
OutsideIrrelevant ==
  Done => \A d \in case.defs \ Closure(case) : \A b \in {"garbage", "assertfail", "print", "nomode"} :
            Result([case EXCEPT !.defs = (@ \ {d}) \cup {[d EXCEPT !.body = b]}]) = out
\* step level (Binding B checks the same on recorded executions): every begin has its end, nesting never exceeds the
\* number of definitions (the lookup list shrinks), nothing outside the closure is ever begun
RECURSIVE Depths(_, _, _)
Depths(log, j, d) == IF j > Len(log) THEN {d}
                     ELSE LET nd == IF log[j].e = "begin" THEN d + 1 ELSE IF log[j].e = "end" THEN d - 1 ELSE d IN {nd} \cup Depths(log, j + 1, nd)
StackBounded == Done => \A x \in Depths(out.log, 1, 0) : x >= 0 /\ x <= Cardinality(case.defs)
LogBalanced == Done => Cardinality({ j \in DOMAIN out.log : out.log[j].e = "begin" }) = Cardinality({ j \in DOMAIN out.log : out.log[j].e = "end" })
LogInsideClosure == Done => \A j \in DOMAIN out.log : out.log[j].id \in { Id(d) : d \in Closure(case) }
(* C17 *)
PrintOnce == Done => \A p, q \in DOMAIN out.prints : p # q => out.prints[p].in # out.prints[q].in
PrintOwnPath == Done => \A p \in DOMAIN out.prints : out.prints[p].path = out.prints[p].in
ErrPathIsFaultFile ==
  Done /\ ~out.ok =>
    LET d == CHOOSE x \in case.defs : Id(x) = out.path IN
      \/ out.kind \in {"syntax", "assert", "nomode"} /\ d.body \in {"garbage", "assertfail", "nomode"}
      \/ out.kind \in {"undefined", "collision", "case"} /\ out.line \in DOMAIN d.refs
=============================================================================
