----------------------------- MODULE MC_Funnel -----------------------------
(* Constants of the mutation machine; mirrored from harness/funnel_seeds.py (the harness checks the numbers). *)
EXTENDS Funnel
SeedLensDef == <<40, 35, 29>>
=============================================================================
