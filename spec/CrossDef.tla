------------------------------ MODULE CrossDef ------------------------------
(***************************************************************************)
(* C11: the cross-definition rules of a namespace.                         *)
(*  Consistent(S)  - the rules as the property states them (declarative);  *)
(*  PairwiseOK(S)  - the two nested loops of pydsdl/_namespace.py          *)
(*                   (_ensure_no_fixed_port_id_collisions over the direct  *)
(*                   types, _ensure_minor_version_compatibility over       *)
(*                   direct + transitive), condition by condition.         *)
(* A definition: [name, maj, min, kind, port, req, resp]; port = -1 means  *)
(* no fixed port-ID; req / resp = [sealed, x] with x in {"e","f"} the      *)
(* size class; resp is only meaningful for services.                       *)
(***************************************************************************)
EXTENDS Integers, Sequences, FiniteSets, TLC

CONSTANTS Triples,     \* TRUE: sets of three definitions (sampled by the harness), FALSE: pairs
          ChainLen     \* 0, or the number of minor versions in a chain A.M.1 .. A.M.ChainLen (every prefix is a case)

VARIABLES ph, case, out
vars == <<ph, case, out>>

Ports == {0 - 1, 0, 5}
Parts == { [sealed |-> s, x |-> x] : s \in BOOLEAN, x \in {"e", "f"} }
\* extent in bits of a part as the harness materialises it
ExtentOf(p) == IF p.sealed THEN (IF p.x = "e" THEN 8 ELSE 16) ELSE (IF p.x = "e" THEN 64 ELSE 128)
Flip(p) == [p EXCEPT !.sealed = ~p.sealed]
Other(p) == [p EXCEPT !.x = IF p.x = "e" THEN "f" ELSE "e"]
Attrs == { [kind |-> "msg", port |-> pt, req |-> rq, resp |-> rq] : pt \in Ports, rq \in Parts }
         \cup UNION { { [kind |-> "svc", port |-> pt, req |-> rq, resp |-> rs] : pt \in Ports, rs \in { rq, Flip(rq), Other(rq) } }
                       : rq \in Parts }
Def(n, M, m, a) == [name |-> n, maj |-> M, min |-> m, kind |-> a.kind, port |-> a.port, req |-> a.req, resp |-> a.resp]
SameId(a, b) == a.name = b.name /\ a.maj = b.maj /\ a.min = b.min

(* The rules as stated *)
HasPort(d) == d.port >= 0
SharePort(a, b) == a.kind = b.kind /\ HasPort(a) /\ HasPort(b) /\ a.port = b.port
MaySharePort(a, b) == a.name = b.name /\ (a.maj = b.maj \/ a.maj = 0 \/ b.maj = 0)
PartEq(p, q) == p.sealed = q.sealed /\ ExtentOf(p) = ExtentOf(q)
LayoutEq(a, b) == PartEq(a.req, b.req) /\ (a.kind = "svc" => PartEq(a.resp, b.resp))
PortKept(older, newer) == ~HasPort(older) \/ newer.port = older.port     \* may be added, never changed or removed
MinorOK(a, b) ==    \* a, b: two minor versions under one major version
  /\ a.kind = b.kind
  /\ IF a.min < b.min THEN PortKept(a, b) ELSE PortKept(b, a)
  /\ a.maj >= 1 => LayoutEq(a, b)
Consistent(S) ==
  \A a, b \in S : ~SameId(a, b) =>
     /\ SharePort(a, b) => MaySharePort(a, b)
     /\ (a.name = b.name /\ a.maj = b.maj) => MinorOK(a, b)

(* The loops of the implementation *)
PortCollision(a, b) ==
  LET differentNames == a.name # b.name
      differentMajor == a.maj # b.maj
      sameKind == a.kind = b.kind
      bothReleased == a.maj > 0 /\ b.maj > 0
      mustDiffer == sameKind /\ (differentNames \/ (differentMajor /\ bothReleased))
  IN mustDiffer /\ HasPort(a) /\ HasPort(b) /\ a.port = b.port
PairwiseMinorFails(a, b) ==
  \/ a.kind # b.kind
  \/ IF HasPort(a) = HasPort(b) THEN a.port # b.port
     ELSE LET mustHave == IF a.min > b.min THEN a ELSE b IN ~HasPort(mustHave)
  \/ /\ a.kind = "svc"                           \* recursion into request and response (ports absent there)
     /\ a.maj > 0 /\ (~PartEq(a.req, b.req) \/ ~PartEq(a.resp, b.resp))
  \/ /\ a.kind = "msg" /\ a.maj > 0
     /\ (ExtentOf(a.req) # ExtentOf(b.req) \/ a.req.sealed # b.req.sealed)
PairwiseOK(S) ==
  /\ \A a, b \in S : ~PortCollision(a, b)
  /\ \A a, b \in S : (~SameId(a, b) /\ a.name = b.name /\ a.maj = b.maj) => ~PairwiseMinorFails(a, b)

Ids2 == { <<n, M, m>> : n \in {"A", "B"}, M \in {0, 1, 2}, m \in {1, 2} }   \* version 0.0 does not exist
Init == ph = 0 /\ case = {} /\ out = TRUE
First == /\ ph = 0 /\ ChainLen = 0
         /\ \E M \in {0, 1, 2}, a \in Attrs : case' = { Def("A", M, 1, a) }
         /\ out' = TRUE /\ ph' = 1
Second == /\ ph = 1 /\ ChainLen = 0
          /\ \E i \in Ids2, a \in Attrs :
               LET d == Def(i[1], i[2], i[3], a) IN
                 /\ \A e \in case : ~SameId(d, e)
                 /\ case' = case \cup {d}
                 /\ out' = Consistent(case')
          /\ ph' = 2
Third == /\ Triples /\ ph = 2
         /\ \E i \in { <<"A", 1, 3>>, <<"A", 0, 3>>, <<"B", 1, 3>>, <<"A", 2, 3>> }, a \in Attrs :
               LET d == Def(i[1], i[2], i[3], a) IN
                 /\ \A e \in case : ~SameId(d, e)
                 /\ case' = case \cup {d}
                 /\ out' = Consistent(case')
         /\ ph' = 3
\* chains of minor versions under one major version: the port-ID rule (added later, never changed or removed) and the
\* layout rule relate every two members, not only neighbours or a member and the oldest one
ChainAttrs == { a \in Attrs : a.resp = a.req /\ (ChainLen > 3 => a.req.x = "e") }
ChainFirst == /\ ph = 0 /\ ChainLen > 0
              /\ \E M \in {0, 1}, a \in ChainAttrs : case' = { Def("A", M, 1, a) }
              /\ out' = TRUE /\ ph' = 1
ChainNext == /\ ChainLen > 0 /\ ph >= 1 /\ ph < ChainLen
             /\ \E a \in ChainAttrs :
                  LET M == (CHOOSE e \in case : TRUE).maj IN
                    /\ case' = case \cup { Def("A", M, ph + 1, a) }
                    /\ out' = Consistent(case')
             /\ ph' = ph + 1
Next == First \/ Second \/ Third \/ ChainFirst \/ ChainNext
Spec == Init /\ [][Next]_vars

\* the pairwise loops decide exactly the stated rules
LoopsDecideTheRules == ph >= 2 => (PairwiseOK(case) <=> Consistent(case))
OutIsConsistent == ph >= 2 => out = Consistent(case)
=============================================================================
