---------------------------- MODULE TraceSolver ----------------------------
(***************************************************************************)
(* Binding B for C16 (and C01): events recorded by the hooks in            *)
(* pydsdl/_bit_length_set/_symbolic.py while definitions with capacities   *)
(* 2^1 .. 2^63 are read and queried are validated against the design of    *)
(* the solver (BLSOps): every repetition is answered with the reduced      *)
(* count EquivK(k, d) - which depends on k only through k mod d once       *)
(* k >= 2d -, residue sets never exceed the divisor, and no numerical      *)
(* expansion of a set larger than the largest divisor in play happens      *)
(* during the analytic queries.  Counts beyond 32 bits arrive as           *)
(* (k mod d, k >= 2d).  Total verdict: ids of all offending events.        *)
(***************************************************************************)
EXTENDS BLSOps, Json, IOUtils

VARIABLES i, bad

Recs == ndJsonDeserialize(IOEnv.RECORDS)
N == Len(Recs)
MaxDivisor == 64

Ok(r) ==
  CASE r.ev = "modulo" /\ r.op \in {"rep", "rng"} ->
         LET krep == IF r.big THEN 2 * r.d + r.kmod ELSE r.ksmall IN      \* a representative with the same reduction
           /\ r.keq = EquivK(krep, r.d)
           /\ r.keq <= 2 * r.d - 1 \/ ~r.big
           /\ r.n <= r.d
           /\ r.d <= MaxDivisor * 8        \* a padding operator above asks for lcm(alignment, divisor)
           \* the enumeration the design performs for this event is the one for the representative
           /\ (r.op = "rep" /\ r.big => MultiChoose(r.n, r.keq) = MultiChoose(r.n, EquivK(krep + r.d, r.d)))
    [] r.ev = "modulo" /\ r.op = "pad" -> r.lcm = Lcm(r.r, r.d) /\ r.lcm <= MaxDivisor * 8
    [] r.ev = "modulo" /\ r.op = "cat" -> \A j \in DOMAIN r.sizes : r.sizes[j] <= r.d
    [] r.ev = "expand" -> r.phase # "query" \/ r.size <= MaxDivisor         \* no large set is enumerated by the queries
    [] OTHER -> TRUE

Init == i = 1 /\ bad = {}
Next == /\ i <= N
        /\ i' = i + 1
        /\ bad' = IF Ok(Recs[i]) THEN bad ELSE bad \cup {Recs[i].id}
Spec == Init /\ [][Next]_<<i, bad>>
Verdict == i = N + 1 => PrintT(<<"VERDICT", N, bad>>)
=============================================================================
