------------------------------- MODULE Evolve -------------------------------
(***************************************************************************)
(* C14: evolution of delimited (appendable) types.                         *)
(* Two revisions D (fields base) and D' (fields base \o extra) with the    *)
(* same extent are placed in the hole of a container Ctx.  The container's *)
(* layout must not depend on the revision, and data written with one       *)
(* revision must be readable with the other: common leading fields keep    *)
(* their values, fields unknown to the writer read as zero / empty, fields *)
(* unknown to the reader are skipped, and everything after the nested      *)
(* object - further fields, further array elements - is read correctly.    *)
(* case = [ctx, base, extra, x, dir, val]; out = the expected outcome.     *)
(***************************************************************************)
EXTENDS WireOps

CONSTANT Rich      \* TRUE: the richer value sets of WireOps!Vals; FALSE: Vals2

VARIABLES ph, case, out
vars == <<ph, case, out>>

U(n, m) == [k |-> "u", n |-> n, m |-> m]
Bool    == [k |-> "bool"]
V(n)    == [k |-> "void", n |-> n]
Fix(e, c) == [k |-> "fix", e |-> e, c |-> c]
Var(e, c) == [k |-> "var", e |-> e, c |-> c]
St(f)   == [k |-> "st", f |-> f]
Un(f)   == [k |-> "un", f |-> f]
Del(t, x) == [k |-> "del", inner |-> t, x |-> x]
Hole == [k |-> "hole"]

Bases  == { <<>>, <<U(3, "s")>>, <<U(8, "s"), Bool>>, <<Var(U(8, "s"), 3)>> }     \* the last: a base revision of variable length
F16 == [k |-> "f", n |-> 16, m |-> "s"]
Extras == { <<U(8, "s")>>, <<Bool>>, <<U(12, "t"), Var(U(3, "s"), 2)>>,
            <<F16>>,                                     \* a float appended at a byte boundary
            <<Del(St(<<U(8, "s")>>), 16)>>,              \* the appended field is itself of a delimited type
            <<Fix(U(8, "s"), 2)>>,                       \* a fixed-length octet array (read in one piece by an implementation)
            <<Bool, Fix(U(8, "s"), 2)>>,                 \* the same, off a byte boundary
            <<V(5), U(8, "s")>>,                         \* padding, then a field
            <<V(8), Del(St(<<U(8, "s")>>), 16)>>,        \* padding, then a field of a delimited type
            <<Un(<<U(8, "s"), Bool>>)>>,                 \* a field of a union type (its tag lies beyond the old data)
            <<Bool, Var(Un(<<Bool, U(3, "s")>>), 2)>> }  \* ... and an array of unions
Ctxs == { St(<<Hole>>),
          St(<<U(3, "s"), Hole, U(8, "s")>>),
          St(<<Fix(Hole, 2), U(8, "s")>>),
          St(<<Var(Hole, 2), Bool>>),
          St(<<Un(<<U(8, "s"), Hole>>), U(5, "t")>>),
          St(<<Del(St(<<Hole, U(8, "s")>>), 256), U(8, "s")>>),
          Un(<<Bool, Hole>>),
          Hole }                                   \* the revision itself at the top level (with its header)

RECURSIVE Subst(_, _)
Subst(c, T) ==
  CASE c.k = "hole" -> T
    [] c.k \in {"fix", "var"} -> [c EXCEPT !.e = Subst(c.e, T)]
    [] c.k \in {"st", "un"} -> [c EXCEPT !.f = [j \in DOMAIN c.f |-> Subst(c.f[j], T)]]
    [] c.k = "del" -> [c EXCEPT !.inner = Subst(c.inner, T)]
    [] OTHER -> c

\* map the values sitting in the hole positions
RECURSIVE MapHole(_, _, _, _, _)
MapHole(c, v, nb, cut, ex) ==   \* nb = number of base fields; cut: drop the extra fields; else append their defaults ex
  CASE c.k = "hole" -> IF cut THEN SubSeq(v, 1, nb) ELSE v \o ex
    [] c.k \in {"fix", "var"} -> [j \in DOMAIN v |-> MapHole(c.e, v[j], nb, cut, ex)]
    [] c.k = "st" -> [j \in DOMAIN c.f |-> MapHole(c.f[j], v[j], nb, cut, ex)]
    [] c.k = "un" -> <<v[1], MapHole(c.f[v[1]], v[2], nb, cut, ex)>>
    [] c.k = "del" -> MapHole(c.inner, v, nb, cut, ex)
    [] OTHER -> v

DOld(c) == Del(St(c.base), c.x)
DNew(c) == Del(St(c.base \o c.extra), c.x)
COld(c) == Subst(c.ctx, DOld(c))
CNew(c) == Subst(c.ctx, DNew(c))
Hdr(c) == c.ctx = Hole                               \* top-level revision: exchanged with its delimiter header

\* dir = "fwd": written with the new revision, read with the old one; "bwd": the converse
Writer(c) == IF c.dir = "fwd" THEN CNew(c) ELSE COld(c)
ReaderT(c) == IF c.dir = "fwd" THEN COld(c) ELSE CNew(c)
Expected(c) ==
  LET w == Canon(Writer(c), c.val) IN
  IF c.dir = "fwd" THEN MapHole(c.ctx, w, Len(c.base), TRUE, <<>>)
  ELSE MapHole(c.ctx, w, Len(c.base), FALSE, [j \in DOMAIN c.extra |-> Default(c.extra[j])])

Outcome(c) ==
  LET bits == EncTop(Writer(c), c.val, Hdr(c)) IN
  [bytes |-> ToBytes(bits), read |-> DecTop(ReaderT(c), bits, Hdr(c)), expected |-> Expected(c)]

Init == ph = 0 /\ case = [ctx |-> Hole] /\ out = 0
PickShape ==
  /\ ph = 0
  /\ \E ctx \in Ctxs, base \in Bases, extra \in Extras, slack \in {0, 16} :
       LET x == MaxOf(BLS(St(base \o extra))) + slack IN
         case' = [ctx |-> ctx, base |-> base, extra |-> extra, x |-> x]
  /\ out' = 0 /\ ph' = 1
PickValue ==
  /\ ph = 1
  /\ \E dir \in {"fwd", "bwd"} :
       LET c0 == [case EXCEPT !.x = case.x] \* (same record)
           c1 == [ctx |-> case.ctx, base |-> case.base, extra |-> case.extra, x |-> case.x, dir |-> dir, val |-> 0]
       IN \E v \in (IF Rich THEN Vals(Writer(c1), FALSE) ELSE Vals2(Writer(c1))) :
            /\ case' = [c1 EXCEPT !.val = v]
            /\ out' = Outcome(case')
  /\ ph' = 2
Next == PickShape \/ PickValue
Spec == Init /\ [][Next]_vars

\* the container's layout does not depend on the revision
ContainerLayoutStable ==
  ph >= 1 =>
    /\ BLS(COld(case)) = BLS(CNew(case))
    /\ Extent(COld(case)) = Extent(CNew(case))
    /\ (case.ctx.k \in {"st", "un"}) =>
         \A B \in { {0}, {8}, {3, 16} } :
            LET a == Offsets(COld(case), B) b == Offsets(CNew(case), B) IN a = b
\* reading across revisions
CrossRead == ph = 2 => out.read.ok /\ out.read.v = out.expected
=============================================================================
