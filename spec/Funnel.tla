------------------------------- MODULE Funnel -------------------------------
(***************************************************************************)
(* C13: whatever text is offered, reading ends with a model or with an     *)
(* InvalidDefinitionError that names the file.                             *)
(*                                                                         *)
(* Part 1 - propagation.  An exception in flight is [cls, path, line].     *)
(* It is raised at a site in one of the layers and passes the `except`     *)
(* clauses of the layers above it, exactly as the code converts it:        *)
(*   visitor  parsimonious wraps anything that is not a pydsdl Error       *)
(*            into VisitationError                                         *)
(*   parse    Error: line injected; ParseError -> DSDLSyntaxError (IDE);   *)
(*            VisitationError -> InternalError                             *)
(*   read     (DSDLDefinition.read) Error: path injected; any other        *)
(*            Exception -> InternalError                                   *)
(*   reader   (_read_definitions) the same                                 *)
(*   api      post-read checks of read_namespace / read_files: no handler  *)
(* EscapesOnlyIDE holds exactly for origins of the InvalidDefinition       *)
(* family (and grammar-level ParseError): the property is therefore an     *)
(* obligation on every raise site, which the conformance step exercises    *)
(* by mutation and noise.                                                  *)
(*                                                                         *)
(* Part 2 - input generation: token-level mutations of valid definitions.  *)
(***************************************************************************)
EXTENDS Naturals, Sequences, FiniteSets, TLC

CONSTANTS MaxMut, NSeeds, SeedLens      \* SeedLens: sequence, number of tokens of each seed definition (harness-defined)

VARIABLES ph, case, out
vars == <<ph, case, out>>

Layers == <<"operator", "visitor", "parse", "read", "reader", "api">>
LayerIx(l) == CHOOSE i \in DOMAIN Layers : Layers[i] = l
Classes == {"IDE", "ParseError", "Raw", "MemoryError", "Visitation", "Internal"}

\* what one layer's handlers do to an exception arriving from below (or raised inside it)
Through(layer, e) ==
  CASE layer = "visitor" -> IF e.cls \in {"IDE", "Internal", "MemoryError"} THEN e ELSE [e EXCEPT !.cls = "Visitation"]
    [] layer = "parse" -> CASE e.cls \in {"IDE", "Internal"} -> [e EXCEPT !.line = IF e.line = 0 /\ e.path = 0 THEN 1 ELSE e.line]
                            [] e.cls = "ParseError" -> [e EXCEPT !.cls = "IDE", !.line = 1]
                            [] e.cls = "Visitation" -> [e EXCEPT !.cls = "Internal", !.line = 1]
                            [] OTHER -> e
    [] layer \in {"read", "reader"} -> CASE e.cls \in {"IDE", "Internal"} -> [e EXCEPT !.path = IF e.path = 0 THEN 1 ELSE e.path]
                                         [] e.cls = "MemoryError" -> e
                                         [] OTHER -> [e EXCEPT !.cls = "Internal", !.path = 1]
    [] OTHER -> e
RECURSIVE Propagate(_, _)
Propagate(e, i) == IF i > Len(Layers) THEN e ELSE Propagate(Through(Layers[i], e), i + 1)
\* Raise sites and the first handler that sees what they raise:
\*   operator, visitor  (expression operators, visitor methods, the builder's callbacks): parsimonious' visit() wrapper
\*   grammar            (the PEG parser itself, inside parse()'s try): parse()'s handlers
\*   finalize           (DataTypeBuilder.finalize and the type constructors, inside DSDLDefinition.read's try)
\*   postcheck          (the cross-definition checks after reading, file listing): no handler at all
FirstHandler(site) == CASE site \in {"operator", "visitor"} -> LayerIx("visitor") [] site = "grammar" -> LayerIx("parse")
                         [] site = "finalize" -> LayerIx("read") [] site = "postcheck" -> Len(Layers) + 1
Escape(c, site) == Propagate([cls |-> c, path |-> 0, line |-> 0], FirstHandler(site))

PInit == ph = 0 /\ case = [cls |-> "IDE", layer |-> "operator"] /\ out = Escape("IDE", "operator")
PNext == /\ ph = 0
         /\ \E c \in {"IDE", "ParseError", "Raw", "MemoryError"}, l \in {"operator", "visitor", "grammar", "finalize", "postcheck"} :
              /\ (c = "ParseError") <=> (l = "grammar")
              /\ case' = [cls |-> c, layer |-> l]
              /\ out' = Escape(c, l)
         /\ ph' = 1
PSpec == PInit /\ [][PNext]_vars
\* what escapes is an InvalidDefinitionError with a path exactly when the origin is of the IDE family / a grammar error
EscapesOnlyIDE ==
  ph = 1 => ((out.cls = "IDE" /\ (out.path # 0 \/ case.layer = "postcheck")) <=> case.cls \in {"IDE", "ParseError"})
\* a raw exception below the reader becomes InternalError; above it, it escapes raw: never an IDE
RawNeverLaundered == ph = 1 /\ case.cls = "Raw" => out.cls \in {"Internal", "Raw"}

-----------------------------------------------------------------------------
(* Part 2: mutations.  case = [seed, ops]; an op is [k, i, j, r]: kind, position(s), replacement index *)
NVocab == 116           \* size of the replacement vocabulary (harness-defined table)
MInit == ph = 0 /\ case = [seed |-> 1, ops |-> <<>>] /\ out = 0
MSeed == ph = 0 /\ \E s \in 1..NSeeds : case' = [seed |-> s, ops |-> <<>>] /\ out' = 0 /\ ph' = 1
\* the second and later mutations stay next to the previous one and replace only by the corner entries of the vocabulary
\* (the full product of two free mutations has ~4 * 10^7 members per seed: it is sampled by the harness's noise generator)
MMutate ==
  /\ ph >= 1 /\ ph <= MaxMut
  /\ \E i \in 1..SeedLens[case.seed] :
       /\ ph > 1 => LET p == case.ops[Len(case.ops)].i IN i \in {p - 1, p, p + 1}
       /\ \/ case' = [case EXCEPT !.ops = Append(@, [k |-> "delete", i |-> i, r |-> 0])]
          \/ ph = 1 /\ case' = [case EXCEPT !.ops = Append(@, [k |-> "duplicate", i |-> i, r |-> 0])]
          \/ ph = 1 /\ case' = [case EXCEPT !.ops = Append(@, [k |-> "swap", i |-> i, r |-> 0])]
          \/ \E r \in (IF ph = 1 THEN 1 ELSE NVocab - 12)..NVocab : case' = [case EXCEPT !.ops = Append(@, [k |-> "replace", i |-> i, r |-> r])]
  /\ out' = 0 /\ ph' = ph + 1
MSpec == MInit /\ [][MSeed \/ MMutate]_vars
OpsBounded == Len(case.ops) <= MaxMut
=============================================================================
