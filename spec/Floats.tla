------------------------------- MODULE Floats -------------------------------
(***************************************************************************)
(* C06, the IEEE 754 clause: every finite bit pattern of binary16 (all     *)
(* fractions, or a boundary set of fractions) and binary32 (boundary set   *)
(* of fractions in every binade), each perturbed upwards by j/8 of its     *)
(* unit in the last place (j = 0 the value itself, j = 4 the midpoint to   *)
(* the next pattern), in both signs and both cast modes; values beyond the *)
(* largest finite one, infinities and NaN.                                 *)
(*   case = [f, kind, s, ef, fr, j, mode]                                  *)
(*   out  = [x |-> the input value, pat |-> Encode(mode, x),               *)
(*           dec |-> Decode(base pattern)]                                 *)
(* RoundFin (shift arithmetic, as an implementation would do it) is        *)
(* checked against the declarative neighbour rule (NeighbourRule), against *)
(* exact distances (Nearest) and against Decode (RoundTripExact).          *)
(***************************************************************************)
EXTENDS FloatOps, FiniteSets

CONSTANTS Formats,        \* subset of {16, 32}
          AllFractions    \* TRUE: every fraction of binary16; FALSE: boundary fractions only

VARIABLES ph, case, out
vars == <<ph, case, out>>

EBof(f) == IF f = 16 THEN 5 ELSE 8
MBof(f) == IF f = 16 THEN 10 ELSE 23
Fractions(f) ==
  LET MB == MBof(f) IN
  IF AllFractions /\ f = 16 THEN 0..(Pow2(MB) - 1)
  ELSE {0, 1, 2, 3, Pow2(MB - 1) - 1, Pow2(MB - 1), Pow2(MB - 1) + 1, Pow2(MB) - 2, Pow2(MB) - 1, 5 * Pow2(MB - 3) + 1, 3 * Pow2(MB - 2)}

Sig(f, ef, fr) == IF ef = 0 THEN fr ELSE Pow2(MBof(f)) + fr                      \* significand of a finite pattern
Ulp(f, ef) == QMin(EBof(f), MBof(f)) + (IF ef = 0 THEN 0 ELSE ef - 1)
InputOf(c) ==
  CASE c.kind = "near" -> Fin(c.s, 8 * Sig(c.f, c.ef, c.fr) + c.j, Ulp(c.f, c.ef) - 3)
    [] c.kind = "big"  -> Fin(c.s, 1 + 2 * c.fr, QMax(EBof(c.f), MBof(c.f)) + MBof(c.f) + 1 + c.j)  \* (1 | 3) * 2^(Emax + 1 + j)
    [] c.kind = "inf"  -> Inf(c.s)
    [] c.kind = "nan"  -> NaN
OutOf(c) == [x |-> InputOf(c), pat |-> Encode(EBof(c.f), MBof(c.f), c.mode, InputOf(c)),
             dec |-> Decode(EBof(c.f), MBof(c.f), Pat(c.s, c.ef, c.fr))]

Init == ph = 0 /\ case = [f |-> 16] /\ out = 0
PickBinade ==
  /\ ph = 0
  /\ \E f \in Formats : \E s \in {0, 1}, ef \in 0..(MaxEF(EBof(f)) - 1), mode \in {"s", "t"} :
       case' = [f |-> f, s |-> s, ef |-> ef, mode |-> mode]
  /\ out' = 0 /\ ph' = 1
PickValue ==
  /\ ph = 1
  /\ \/ \E fr \in Fractions(case.f), j \in 0..7 :
          LET c == [f |-> case.f, kind |-> "near", s |-> case.s, ef |-> case.ef, fr |-> fr, j |-> j, mode |-> case.mode] IN
            case' = c /\ out' = OutOf(c)
     \/ /\ case.ef = 0                                                          \* specials once per (format, sign, mode)
        /\ \E k \in {"big", "inf", "nan"}, fr \in {0, 1}, j \in 0..3 :
             /\ k # "big" => (fr = 0 /\ j = 0)
             /\ LET c == [f |-> case.f, kind |-> k, s |-> case.s, ef |-> MaxEF(EBof(case.f)), fr |-> fr, j |-> j, mode |-> case.mode] IN
                  case' = c /\ out' = OutOf(c)
  /\ ph' = 2
Next == PickBinade \/ PickValue
Spec == Init /\ [][Next]_vars

Near == ph = 2 /\ case.kind = "near"
EB == EBof(case.f)
MB == MBof(case.f)
Lo == Pat(case.s, case.ef, case.fr)
Hi == IF case.fr = Pow2(MB) - 1 THEN Pat(case.s, case.ef + 1, 0) ELSE Pat(case.s, case.ef, case.fr + 1)    \* may be infinity

\* a value that is representable encodes to its own pattern, and decodes back to itself
RoundTripExact == Near /\ case.j = 0 => out.pat = Lo /\ out.dec = Fin(case.s, Sig(case.f, case.ef, case.fr), Ulp(case.f, case.ef))
\* the declarative rule: below the midpoint the lower neighbour, above it the upper one, at the midpoint the even one;
\* saturated mode never leaves the finite range
NeighbourRule ==
  Near =>
    LET nearest == IF case.j < 4 THEN Lo ELSE IF case.j > 4 THEN Hi ELSE (IF case.fr % 2 = 0 THEN Lo ELSE Hi) IN
      out.pat = IF case.mode = "s" /\ nearest.ef = MaxEF(EB) THEN MaxPat(EB, MB, case.s) ELSE nearest
\* by exact distances: the result is at least as close as either neighbour (when all three are finite)
Nearest ==
  Near /\ Hi.ef < MaxEF(EB) =>
    LET r == Decode(EB, MB, out.pat)  lo == Decode(EB, MB, Lo)  hi == Decode(EB, MB, Hi) IN
      /\ DistCmp(out.x.m, out.x.e, r.m, r.e, lo.m, lo.e) <= 0
      /\ DistCmp(out.x.m, out.x.e, r.m, r.e, hi.m, hi.e) <= 0
      /\ CmpMag(hi.m, hi.e, lo.m, lo.e) > 0                                   \* patterns are ordered like their values
\* beyond the range: clamped (saturated) or infinite (truncated); infinities and NaN pass
Specials ==
  ph = 2 /\ case.kind # "near" =>
    CASE case.kind = "big" -> out.pat = IF case.mode = "s" THEN MaxPat(EB, MB, case.s) ELSE Pat(case.s, MaxEF(EB), 0)
      [] case.kind = "inf" -> out.pat = Pat(case.s, MaxEF(EB), 0)
      [] case.kind = "nan" -> IsNaNPat(EB, out.pat)
=============================================================================
