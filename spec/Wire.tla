-------------------------------- MODULE Wire --------------------------------
(***************************************************************************)
(* Enumeration of (type, value) pairs and (type, bit string) pairs for     *)
(* C06 / C07 / C08 (wire half), with the design-level invariants of the    *)
(* wire format:                                                            *)
(*   RoundTrip, LengthInBLS (couples the encoder with the independently    *)
(*   written layout rules of LayoutOps), DefaultsSameAsZeros,              *)
(*   OffsetsAreStarts (field offsets are the positions the encoder uses),  *)
(*   DecTotal / FixedPoint / TruncationIgnored / ZeroExtension.            *)
(***************************************************************************)
EXTENDS WireOps

CONSTANTS Growth,     \* nesting steps on top of the first primitive
          Mode,       \* "values": case = [ty, val, hdr]; "bytes": case = [ty, bits, hdr]
          MaxBits,    \* "bytes" mode: bit strings of length 0, 8, .., MaxBits
          Wide,       \* TRUE: also integers of 9..23 bits that start at every bit offset 1..7 of a byte
          Lean        \* TRUE: the lean value sets (two values per integer, empty / full arrays) - for deep nesting

VARIABLES ph, case, out
vars == <<ph, case, out>>

U(n, m) == [k |-> "u", n |-> n, m |-> m]
I(n)    == [k |-> "i", n |-> n]
F(n)    == [k |-> "f", n |-> n, m |-> "s"]
V(n)    == [k |-> "void", n |-> n]
Bool    == [k |-> "bool"]
Fix(e, c) == [k |-> "fix", e |-> e, c |-> c]
Var(e, c) == [k |-> "var", e |-> e, c |-> c]
St(f)   == [k |-> "st", f |-> f]
Un(f)   == [k |-> "un", f |-> f]
Del(t, x) == [k |-> "del", inner |-> t, x |-> x]

Prims == { Bool, U(2, "s"), U(3, "t"), I(3), U(8, "s"), F(16), V(3) }
Comp  == St(<<U(3, "s")>>)
DComp == Del(St(<<U(8, "s")>>), 16)              \* a delimited sibling whose extent exceeds its content
DUn   == Del(Un(<<Bool, U(8, "s")>>), 24)        \* a delimited union sibling: its bool variant ends off a byte boundary
DArr  == Del(St(<<Fix(U(8, "s"), 2)>>), 32)       \* a delimited sibling that holds an octet array (extent above its content)
Sibs  == { Bool, U(5, "t"), Comp, DComp, DUn, Var(U(2, "s"), 2) }
NonVoid(t) == t.k # "void"
Elem(t) == t.k \notin {"void", "fix", "var"}

Wraps(t) ==
     (IF Elem(t) THEN { Fix(t, 2), Var(t, 2) } ELSE {})
  \cup { St(<<t>>) } \cup { St(<<s, t>>) : s \in Sibs } \cup { St(<<t, s>>) : s \in Sibs }
  \cup (IF NonVoid(t) THEN { Un(<<t, s>>) : s \in Sibs } \cup { Un(<<s, t>>) : s \in Sibs } ELSE {})
  \cup (IF t.k \in {"st", "un"} THEN LET m == MaxOf(BLS(t)) IN { Del(t, m), Del(t, m + 16) } ELSE {})
  \* arrays of composites as fields behind a field that ends off a byte boundary (the array inherits alignment 8)
  \cup (IF t.k \in {"st", "un", "del"}
        THEN { St(<<s, Fix(t, 2)>>) : s \in {Bool, U(5, "t")} } \cup { St(<<s, Var(t, 2), Bool>>) : s \in {Bool, U(5, "t")} }
             \cup { Un(<<Bool, Var(t, 2)>>) }
        ELSE {})

Top(t) == t.k \in {"st", "un", "del"}

EncOut(c) ==
  LET b == EncTop(c.ty, c.val, c.hdr) IN
  [bytes |-> ToBytes(b), nbits |-> Len(b), canon |-> Canon(c.ty, c.val),
   starts |-> StartsOf(c.ty, c.val, 0)]
DecOut(c) == DecTop(c.ty, c.bits, c.hdr)

Init == ph = 0 /\ case = [ty |-> Bool] /\ out = 0
\* (delimited types are starting points too: single-field structures and arrays of them appear after one step)
Pick == ph = 0 /\ \E t \in Prims : case' = [ty |-> t] /\ out' = 0 /\ ph' = 1
\* the outermost of three nesting steps is taken from a smaller set (the full product has ~10^5 types)
TopWraps(t) ==
     (IF Elem(t) THEN { Fix(t, 2), Var(t, 2) } ELSE {})
  \cup { St(<<U(5, "t"), t>>), St(<<t, Bool>>) }
  \cup (IF NonVoid(t) THEN { Un(<<Bool, t>>) } ELSE {})
  \cup (IF t.k \in {"st", "un"} THEN { Del(t, MaxOf(BLS(t)) + 16) } ELSE {})
Grow == /\ ph >= 1 /\ ph <= Growth
        /\ \E t \in (IF Lean /\ ph = 3 THEN TopWraps(case.ty) ELSE Wraps(case.ty)) : case' = [ty |-> t] /\ out' = 0
        /\ ph' = ph + 1
\* complete the case: a value (Mode "values") or a bit string (Mode "bytes")
Complete ==
  /\ ph >= 2 /\ ph <= Growth + 1 /\ Top(case.ty)
  /\ \E hdr \in (IF case.ty.k = "del" THEN BOOLEAN ELSE {FALSE}) :
       IF Mode = "values"
       THEN \E v \in (IF Lean THEN Vals2(case.ty) ELSE Vals(case.ty, TRUE)) :
              /\ case' = [ty |-> case.ty, val |-> v, hdr |-> hdr]
              /\ out' = EncOut(case')
       ELSE \E n \in { 8 * j : j \in 0..(MaxBits \div 8) } : \E bits \in [1..n -> {0, 1}] :
              /\ case' = [ty |-> case.ty, bits |-> bits, hdr |-> hdr]
              /\ out' = DecOut(case')
  /\ ph' = 100
\* wider integers behind a sub-byte head: every combination of start offset and width modulo 8, values with the top bit set
WidePrims == { U(9, "s"), U(12, "t"), U(15, "s"), I(11), I(14), U(17, "s"), U(23, "t") }
WideTypes(dummy) == { St(<<U(k, "t"), p>>) : k \in 1..7, p \in WidePrims }
                    \cup { St(<<U(k, "t"), Fix(p, 2), Bool>>) : k \in {3, 5}, p \in WidePrims }
                    \cup { Un(<<p, U(k, "t")>>) : k \in {3}, p \in WidePrims }
                    \* single-field structures whose only field is of a delimited type (bare-value input forms), arrays of
                    \* delimited types, an octet array inside a delimited sibling followed by further fields
                    \cup { St(<<d>>) : d \in {DComp, DUn, DArr} } \cup { St(<<St(<<d>>)>>) : d \in {DComp, DUn} }
                    \cup { St(<<Fix(d, 2), Bool>>) : d \in {DComp, DUn, DArr} } \cup { St(<<Var(d, 2), U(8, "s")>>) : d \in {DComp, DArr} }
                    \cup { St(<<U(5, "t"), DArr, U(8, "s")>>), St(<<DArr, Bool>>), Un(<<Bool, DArr>>), Del(St(<<DArr, U(8, "s")>>), 96) }
PickWide == ph = 0 /\ Wide /\ \E t \in WideTypes(0) : case' = [ty |-> t] /\ out' = 0 /\ ph' = Growth + 1
Next == Pick \/ PickWide \/ Grow \/ Complete
Spec == Init /\ [][Next]_vars

Done == ph = 100
\* every delimited type of the universe is a legal one: a byte-multiple extent not below its longest representation
RECURSIVE ExtentsLegal(_)
ExtentsLegal(t) ==
  CASE t.k \in {"fix", "var"} -> ExtentsLegal(t.e)
    [] t.k \in {"st", "un"} -> \A j \in DOMAIN t.f : ExtentsLegal(t.f[j])
    [] t.k = "del" -> t.x % 8 = 0 /\ t.x >= MaxOf(BLS(t.inner)) /\ ExtentsLegal(t.inner)
    [] OTHER -> TRUE
UniverseLegal == ExtentsLegal(case.ty)
-----------------------------------------------------------------------------
(* C06 *)
RoundTrip ==
  Done /\ Mode = "values" =>
    LET d == DecTop(case.ty, EncTop(case.ty, case.val, case.hdr), case.hdr) IN d.ok /\ d.v = Canon(case.ty, case.val)
\* the length of what is written is a member of the independently defined bit length set
LengthInBLS ==
  Done /\ Mode = "values" =>
    out.nbits \in (IF case.ty.k = "del" /\ ~case.hdr THEN BLS(case.ty.inner) ELSE BLS(case.ty))
\* padding bits are zero and the result is a whole number of bytes
WholeBytes == Done /\ Mode = "values" => out.nbits % 8 = 0
DefaultsSameAsZeros ==
  Done /\ Mode = "values" =>
    LET d == DecTop(case.ty, Zeros(out.nbits), case.hdr) IN
      \* all-zero data of any length decodes to the default value (zero / empty / first variant)
      d.ok => d.v = Default(case.ty)
Inner(t) == IF t.k = "del" THEN t.inner ELSE t
(* C08: the offsets the iterators report are the positions the encoder really uses *)
OffsetsAreStarts ==
  Done /\ Mode = "values" /\ (case.ty.k # "del" \/ case.hdr) =>
    LET o == Offsets(case.ty, {0}) s == out.starts IN
      IF Inner(case.ty).k = "st"
      THEN \A j \in DOMAIN s : s[j] \in o[j]
      ELSE s[1] \in o[case.val[1]]

(* C07 *)
DecTotal == Done /\ Mode = "bytes" => (out.ok \/ out.err \in {"ArrayLength", "UnionTag", "DelimiterHeader"})
FixedPoint ==
  Done /\ Mode = "bytes" /\ out.ok =>
    LET d == DecTop(case.ty, EncTop(case.ty, out.v, case.hdr), case.hdr) IN d.ok /\ d.v = out.v
\* bytes after a complete representation are ignored
TruncationIgnored ==
  Done /\ Mode = "bytes" /\ out.ok =>
    LET e == EncTop(case.ty, out.v, case.hdr) IN
      \A junk \in { <<1, 1, 1, 1, 1, 1, 1, 1>>, <<1, 0, 0, 0, 0, 0, 0, 0, 0, 1, 0, 1, 0, 1, 0, 1>> } :
         LET d == DecTop(case.ty, e \o junk, case.hdr) IN d.ok /\ d.v = out.v
\* missing trailing bytes read as zeros: b and b followed by zero bytes decode alike, unless a delimiter header
\* then exceeds the available data
ZeroExtension ==
  Done /\ Mode = "bytes" =>
    \A k \in {8, 40} :
      LET d == DecTop(case.ty, case.bits \o Zeros(k), case.hdr) IN
        \/ d = out
        \/ (~out.ok /\ out.err = "DelimiterHeader")
=============================================================================
