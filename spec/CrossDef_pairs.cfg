SPECIFICATION Spec
CONSTANT Triples = FALSE
INVARIANT LoopsDecideTheRules
INVARIANT OutIsConsistent
CHECK_DEADLOCK FALSE
