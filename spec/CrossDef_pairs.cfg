SPECIFICATION Spec
CONSTANTS Triples = FALSE ChainLen = 0
INVARIANT LoopsDecideTheRules
INVARIANT OutIsConsistent
CHECK_DEADLOCK FALSE
