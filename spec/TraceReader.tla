---------------------------- MODULE TraceReader ----------------------------
(***************************************************************************)
(* Binding B for C19 / C09 over executions that were NOT generated from    *)
(* the specification: the reader events recorded while the repository's    *)
(* own namespace tests run.  The trace is replayed one event per state     *)
(* and the step-level statements are checked on it:                        *)
(*   - begin / end are properly nested and the nesting stays bounded       *)
(*     (the lookup list shrinks along the recursion stack);                *)
(*   - a definition's text is loaded only while that definition is being   *)
(*     read (never at listing time, never for a bystander);                *)
(*   - a definition is read only if it is a target of the call (it is      *)
(*     classified at level 0) or a reference has resolved to it before.    *)
(* Files are small integers.                                               *)
(***************************************************************************)
EXTENDS Integers, Sequences, FiniteSets, Json, IOUtils, TLC

VARIABLES i, stack, resolved, unexplained, targets, bad

T == ndJsonDeserialize(IOEnv.RECORDS)
N == Len(T)
MaxDepth == 40

Init == i = 1 /\ stack = <<>> /\ resolved = {} /\ unexplained = {} /\ targets = {} /\ bad = {}
Step ==
  /\ i <= N
  /\ LET e == T[i] IN
       CASE e.ev = "begin" ->
              /\ stack' = Append(stack, e.f)
              \* a read at depth 0 is started by the target loop (or directly by a caller); a nested read needs a resolution
              /\ unexplained' = IF stack = <<>> \/ e.f \in resolved THEN unexplained ELSE unexplained \cup {e.f}
              /\ bad' = IF Len(stack) + 1 > MaxDepth \/ e.f \in { stack[j] : j \in DOMAIN stack } THEN bad \cup {e.id} ELSE bad
              /\ UNCHANGED <<resolved, targets>>
         [] e.ev = "end" ->
              /\ bad' = IF stack = <<>> \/ stack[Len(stack)] # e.f THEN bad \cup {e.id} ELSE bad
              /\ stack' = IF stack = <<>> THEN stack ELSE SubSeq(stack, 1, Len(stack) - 1)
              /\ UNCHANGED <<resolved, unexplained, targets>>
         [] e.ev = "resolve" ->
              /\ resolved' = IF Len(e.found) = 1 THEN resolved \cup {e.found[1]} ELSE resolved
              \* a reference is resolved on behalf of the definition being read
              /\ bad' = IF stack = <<>> \/ stack[Len(stack)] # e.f THEN bad \cup {e.id} ELSE bad
              /\ UNCHANGED <<stack, unexplained, targets>>
         [] e.ev = "text_load" ->     \* (with an empty stack the text is accessed directly by a caller, e.g. a unit test: not judged)
              /\ bad' = IF stack # <<>> /\ stack[Len(stack)] # e.f THEN bad \cup {e.id} ELSE bad
              /\ UNCHANGED <<stack, resolved, unexplained, targets>>
         [] e.ev = "classify" ->
              /\ targets' = IF e.level = 0 THEN targets \cup {e.f} ELSE targets
              /\ UNCHANGED <<stack, resolved, unexplained, bad>>
         [] OTHER -> UNCHANGED <<stack, resolved, unexplained, targets, bad>>
  /\ i' = i + 1
Spec == Init /\ [][Step]_<<i, stack, resolved, unexplained, targets, bad>>
\* at the end: the ids of offending events and the files that were read inside another read without a prior resolution
Verdict == i = N + 1 => PrintT(<<"VERDICT", N, bad \cup unexplained>>)
=============================================================================
