SPECIFICATION Spec
CONSTANT MaxDev = 2
INVARIANT SkeletonValid
INVARIANT OutConsistent
CHECK_DEADLOCK FALSE
