SPECIFICATION MSpec
CONSTANTS MaxMut = 1 NSeeds = 3
CONSTANT SeedLens <- SeedLensDef
INVARIANT OpsBounded
CHECK_DEADLOCK FALSE
