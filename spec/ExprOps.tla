------------------------------ MODULE ExprOps ------------------------------
(***************************************************************************)
(* DSDL constant expressions: values, exact evaluation, and the operator   *)
(* precedence / associativity of the Specification grammar (no variables). *)
(*                                                                         *)
(* Values:  [t |-> "rat", n, d]  exact rational, d > 0, gcd(n, d) = 1      *)
(*          [t |-> "bool", b], [t |-> "str", s]                            *)
(*          [t |-> "set", k, e]   homogeneous non-empty set, k = element   *)
(*                                kind, e = set of values                  *)
(*          [t |-> "type", s]     a data type used as an operand: no      *)
(*                                operator but the attribute one applies   *)
(*          [t |-> "err"]   the expression is invalid (must be rejected)   *)
(*          [t |-> "skip"]  outside TLC's 32-bit arithmetic (not judged)   *)
(* ASTs:    [op |-> "lit", v], [op |-> "un", o, a], [op |-> "bin", o, a, b] *)
(*          [op |-> "attr", a, n], [op |-> "set", e |-> <<asts>>]          *)
(***************************************************************************)
EXTENDS Integers, Sequences, FiniteSets, TLC, Bitwise

Limit == 30000
Err == [t |-> "err"]
Skip == [t |-> "skip"]
Abs(x) == IF x < 0 THEN 0 - x ELSE x
RECURSIVE Gcd(_, _)
Gcd(a, b) == IF b = 0 THEN a ELSE Gcd(b, a % b)
\* normalised rational from any numerator / non-zero denominator (magnitudes guarded)
Rat(n, d) ==
  IF Abs(n) > Limit * Limit \/ Abs(d) > Limit * Limit THEN Skip ELSE
  LET s == IF d < 0 THEN 0 - 1 ELSE 1
      g == Gcd(Abs(n), Abs(d))
      nn == (s * n) \div g
      dd == (s * d) \div g
  IN IF Abs(nn) > Limit \/ dd > Limit THEN Skip ELSE [t |-> "rat", n |-> nn, d |-> dd]
IntV(n) == [t |-> "rat", n |-> n, d |-> 1]
BoolV(b) == [t |-> "bool", b |-> b]
StrV(s) == [t |-> "str", s |-> s]
TypeV(s) == [t |-> "type", s |-> s]
IsInt(v) == v.t = "rat" /\ v.d = 1
Kind(v) == IF v.t = "set" THEN "set" ELSE v.t
Bad(v) == v.t \in {"err", "skip"}
\* an error wins over a skip only if it is certain: keep the first problem found
Worst(a, b) == IF a.t = "err" \/ b.t = "err" THEN Err ELSE Skip

\* floor of p / q for q # 0
FloorDiv(p, q) == IF q > 0 THEN p \div q ELSE (0 - p) \div (0 - q)
RECURSIVE PowInt(_, _)
PowInt(x, k) == IF k = 0 THEN 1 ELSE IF Abs(x) > Limit THEN Limit * Limit ELSE LET r == PowInt(x, k - 1) IN IF Abs(r) > Limit THEN Limit * Limit ELSE x * r

\* PowInt saturates at Limit^2: a saturated component means the value is outside the guarded range
PowRat(pn, pd) == IF Abs(pn) >= Limit * Limit \/ Abs(pd) >= Limit * Limit THEN Skip ELSE Rat(pn, pd)
RatCmp(a, b) == a.n * b.d - b.n * a.d          \* sign of a - b
Arith(o, a, b) ==     \* a, b rationals
  CASE o = "+" -> Rat(a.n * b.d + b.n * a.d, a.d * b.d)
    [] o = "-" -> Rat(a.n * b.d - b.n * a.d, a.d * b.d)
    [] o = "*" -> Rat(a.n * b.n, a.d * b.d)
    [] o = "/" -> IF b.n = 0 THEN Err ELSE Rat(a.n * b.d, a.d * b.n)
    [] o = "%" -> IF b.n = 0 THEN Err
                  ELSE LET q == FloorDiv(a.n * b.d, a.d * b.n) IN      \* floor(a / b); result has the sign of b
                       Rat(a.n * b.d - q * b.n * a.d, a.d * b.d)
    [] o = "**" -> IF b.d # 1 THEN Skip                                \* real exponents are outside the statement
                   ELSE IF b.n >= 0 THEN (IF b.n > 12 THEN Skip ELSE PowRat(PowInt(a.n, b.n), PowInt(a.d, b.n)))
                   ELSE IF a.n = 0 THEN Err                            \* zero to a negative power
                   ELSE IF b.n < 0 - 12 THEN Skip ELSE PowRat(PowInt(a.d, 0 - b.n), PowInt(a.n, 0 - b.n))
BitOp(o, a, b) ==     \* integers only; negative operands use two's complement in the implementation: not modelled
  IF ~IsInt(a) \/ ~IsInt(b) THEN Err
  ELSE IF a.n < 0 \/ b.n < 0 THEN Skip
  ELSE CASE o = "|" -> IntV(a.n | b.n) [] o = "&" -> IntV(a.n & b.n) [] o = "^" -> IntV(a.n ^^ b.n)
CmpOp(o, c) == CASE o = "==" -> c = 0 [] o = "!=" -> c # 0 [] o = "<" -> c < 0 [] o = "<=" -> c <= 0
                 [] o = ">" -> c > 0 [] o = ">=" -> c >= 0

ArithOps == {"+", "-", "*", "/", "%", "**"}
BitOps == {"|", "^", "&"}
CmpOps == {"==", "!=", "<", "<=", ">", ">="}
LogOps == {"||", "&&"}
BinOps == ArithOps \cup BitOps \cup CmpOps \cup LogOps

\* a set value from a set of element values (all of one kind); empty sets do not exist
MkSet(kind, E) == IF E = {} THEN Err ELSE [t |-> "set", k |-> kind, e |-> E]

RECURSIVE Bin(_, _, _)
\* element-wise application with a scalar on either side; any failing element fails the whole
ElemWise(o, s, x, swap) ==
  LET R == { IF swap THEN Bin(o, x, y) ELSE Bin(o, y, x) : y \in s.e } IN
    IF \E r \in R : r.t = "err" THEN Err
    ELSE IF \E r \in R : r.t = "skip" THEN Skip
    ELSE MkSet(Kind(CHOOSE r \in R : TRUE), R)
Bin(o, a, b) ==
  IF Bad(a) \/ Bad(b) THEN Worst(a, b)
  ELSE IF a.t = "rat" /\ b.t = "rat" THEN
         (IF o \in ArithOps THEN Arith(o, a, b)
          ELSE IF o \in BitOps THEN BitOp(o, a, b)
          ELSE IF o \in CmpOps THEN BoolV(CmpOp(o, RatCmp(a, b)))
          ELSE Err)
  ELSE IF a.t = "bool" /\ b.t = "bool" THEN
         (CASE o = "||" -> BoolV(a.b \/ b.b) [] o = "&&" -> BoolV(a.b /\ b.b)
            [] o = "==" -> BoolV(a.b = b.b) [] o = "!=" -> BoolV(a.b # b.b) [] OTHER -> Err)
  ELSE IF a.t = "str" /\ b.t = "str" THEN
         (CASE o = "+" -> Skip                      \* concatenation: strings are atomic in TLC (checked by the harness)
            [] o = "==" -> BoolV(a.s = b.s) [] o = "!=" -> BoolV(a.s # b.s) [] OTHER -> Err)
  ELSE IF a.t = "set" /\ b.t = "set" THEN
         (IF a.k # b.k THEN Err                     \* sets of different element types do not combine
          ELSE CASE o = "|" -> MkSet(a.k, a.e \cup b.e) [] o = "&" -> MkSet(a.k, a.e \cap b.e)
                 [] o = "^" -> MkSet(a.k, (a.e \ b.e) \cup (b.e \ a.e))
                 [] o = "==" -> BoolV(a.e = b.e) [] o = "!=" -> BoolV(a.e # b.e)
                 [] o = "<=" -> BoolV(a.e \subseteq b.e) [] o = ">=" -> BoolV(b.e \subseteq a.e)
                 [] o = "<" -> BoolV(a.e \subseteq b.e /\ a.e # b.e) [] o = ">" -> BoolV(b.e \subseteq a.e /\ a.e # b.e)
                 [] OTHER -> Err)
  ELSE IF a.t = "set" /\ o \in ArithOps THEN ElemWise(o, a, b, FALSE)
  ELSE IF b.t = "set" /\ o \in ArithOps THEN ElemWise(o, b, a, TRUE)
  ELSE Err

Un(o, a) ==
  IF Bad(a) THEN a
  ELSE CASE o = "!" -> IF a.t = "bool" THEN BoolV(~a.b) ELSE Err
         [] o = "-" -> IF a.t = "rat" THEN Rat(0 - a.n, a.d) ELSE Err
         [] o = "+" -> IF a.t = "rat" THEN a ELSE Err

\* a set of sets of one element kind, totally ordered by inclusion
IsChain(E) == /\ \A x \in E, y \in E : x.k = y.k
              /\ \A x \in E, y \in E : x.e \subseteq y.e \/ y.e \subseteq x.e
Attr(a, n) ==
  IF Bad(a) THEN a
  ELSE IF a.t # "set" THEN Err
  ELSE CASE n = "count" -> IntV(Cardinality(a.e))
         \* min / max are determined by applying < / > to successive elements: a singleton needs no comparison, so it is
         \* not judged for element kinds without an order; sets of sets are ordered by inclusion, which decides the
         \* answer whenever the elements form a chain (otherwise not judged)
         [] n = "min" -> IF a.k = "rat" THEN CHOOSE x \in a.e : \A y \in a.e : RatCmp(x, y) <= 0
                         ELSE IF Cardinality(a.e) = 1 THEN Skip
                         ELSE IF a.k = "set" THEN (IF IsChain(a.e) THEN CHOOSE x \in a.e : \A y \in a.e : x.e \subseteq y.e ELSE Skip)
                         ELSE Err
         [] n = "max" -> IF a.k = "rat" THEN CHOOSE x \in a.e : \A y \in a.e : RatCmp(x, y) >= 0
                         ELSE IF Cardinality(a.e) = 1 THEN Skip
                         ELSE IF a.k = "set" THEN (IF IsChain(a.e) THEN CHOOSE x \in a.e : \A y \in a.e : y.e \subseteq x.e ELSE Skip)
                         ELSE Err
         [] OTHER -> Err

RECURSIVE Eval(_)
Eval(x) ==
  CASE x.op = "lit" -> x.v
    [] x.op = "un" -> Un(x.o, Eval(x.a))
    [] x.op = "bin" -> Bin(x.o, Eval(x.a), Eval(x.b))
    [] x.op = "attr" -> Attr(Eval(x.a), x.n)
    [] x.op = "set" ->
         LET vs == [j \in DOMAIN x.e |-> Eval(x.e[j])] IN
           IF Len(vs) = 0 THEN Err                                                      \* empty set literal
           ELSE IF \E j \in DOMAIN vs : vs[j].t = "err" THEN Err
           ELSE IF \E j \in DOMAIN vs : vs[j].t = "skip" THEN Skip
           ELSE IF \E j \in DOMAIN vs : Kind(vs[j]) # Kind(vs[1]) THEN Err                \* heterogeneous
           ELSE MkSet(Kind(vs[1]), { vs[j] : j \in DOMAIN vs })

-----------------------------------------------------------------------------
(* Precedence levels of the Specification grammar, lowest first:                                               *)
(*   1 logical (or, and)   2 logical not (!)   3 comparison   4 bitwise (| ^ &)   5 additive   6 multiplicative   *)
(*   7 inversion (unary + -)   8 exponential (power, right associative)   9 attribute (.)   10 atom                 *)
Level(x) ==
  CASE x.op \in {"lit", "set"} -> 10
    [] x.op = "attr" -> 9
    [] x.op = "un" -> IF x.o = "!" THEN 2 ELSE 7
    [] x.op = "bin" -> CASE x.o \in LogOps -> 1 [] x.o \in CmpOps -> 3 [] x.o \in BitOps -> 4
                         [] x.o \in {"+", "-"} -> 5 [] x.o \in {"*", "/", "%"} -> 6 [] x.o = "**" -> 8
\* least level an operand may have without parentheses
LeftMin(x)  == IF x.o = "**" THEN 9 ELSE Level(x)             \* left-associative chains; ** takes an attribute/atom on the left
RightMin(x) == IF x.o = "**" THEN 7 ELSE Level(x) + 1          \* ** takes an inversion on the right (2 ** -1, 2 ** 3 ** 2)
OperandMin(x) == CASE x.op = "un" -> IF x.o = "!" THEN 2 ELSE 8
                   [] x.op = "attr" -> 9

RECURSIVE Tok(_, _)
Paren(x, min, full) == IF full \/ Level(x) < min THEN <<"(">> \o Tok(x, full) \o <<")">> ELSE Tok(x, full)
RECURSIVE TokList(_, _, _)
TokList(es, j, full) == IF j > Len(es) THEN <<>> ELSE (IF j > 1 THEN <<",">> ELSE <<>>) \o Tok(es[j], full) \o TokList(es, j + 1, full)
\* token sequence with minimal (full = FALSE) or redundant (full = TRUE) parentheses; literals are left to the renderer
Tok(x, full) ==
  CASE x.op = "lit" -> <<x.v>>
    [] x.op = "set" -> <<"{">> \o TokList(x.e, 1, full) \o <<"}">>
    [] x.op = "un" -> <<x.o>> \o Paren(x.a, OperandMin(x), full)
    [] x.op = "attr" -> Paren(x.a, 9, full) \o <<".", x.n>>
    [] x.op = "bin" -> Paren(x.a, LeftMin(x), full) \o <<x.o>> \o Paren(x.b, RightMin(x), full)
=============================================================================
