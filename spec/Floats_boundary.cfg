SPECIFICATION Spec
CONSTANTS Formats = {16, 32} AllFractions = FALSE
INVARIANT RoundTripExact
INVARIANT NeighbourRule
INVARIANT Nearest
INVARIANT Specials
CHECK_DEADLOCK FALSE
