----------------------------- MODULE Statements -----------------------------
(***************************************************************************)
(* The statement stream between pydsdl's parser (_ParseTreeProcessor) and   *)
(* the DataTypeBuilder, as a state machine over abstract LINES.             *)
(*                                                                         *)
(* A definition text with N line breaks is a sequence of N+1 lines; "no    *)
(* final newline" simply means that the last line is not empty, so every   *)
(* way a text can end is part of the alphabet.                             *)
(*                                                                         *)
(* A line is [k |-> kind, c |-> has a #-comment].  Kinds:                   *)
(*   empty (nothing but, possibly, a comment), blank (white space only),    *)
(*   field, const, pad, union, deprecated, sealed, extent, assert, print,   *)
(*   marker (---), offq (a directive whose expression reads _offset_),      *)
(*   kdef (a constant named K), kuse (a constant whose initialiser reads    *)
(*   K), kprint (a @print that reads K): identifiers resolve to the         *)
(*   constants of the SAME section (request / response) only,               *)
(*   and the faulty kinds badconst (a constant whose value does not fit:    *)
(*   detected when the attribute is committed), assertfalse, undef          *)
(*   (undefined identifier), syntax (the line does not parse).              *)
(*                                                                         *)
(* Part 1 is implementation-shaped: one operator per step of the code      *)
(* (FlushComment = _flush_comment + on_header_comment/on_attribute_comment, *)
(* Apply = the statement visitors and _on_*_directive handlers, LineEnd =   *)
(* visit_line, Final = the flush at the end of the input, Finalize =        *)
(* DataTypeBuilder.finalize).  Attributes are committed LAZILY: a field is  *)
(* queued by its statement and committed, with its doc comment, by the      *)
(* next flush.                                                             *)
(* Part 2 is the declarative mirror of the text (what C03 states).          *)
(* Part 3 enumerates line sequences and relates the two.                    *)
(***************************************************************************)
EXTENDS Naturals, Sequences, FiniteSets, TLC

CONSTANTS Alphabet,          \* set of line symbols offered to AddLine
          AfterFailure,      \* symbols still offered once the machine has failed (the rest of the text is not visited)
          MaxLines,
          AsFoundNoFinalFlush,   \* TRUE reproduces defect F1 (as found at the pinned commit)
          AsFoundDeferredLine    \* TRUE reproduces defect F2

VARIABLES lines, out
vars == <<lines, out>>

AttrKinds == {"field", "const", "pad", "badconst", "kdef", "kuse"}
ConstKinds == {"const", "kdef", "kuse"}
\* mlprint: a @print whose expression holds a string literal that spans two physical lines (all line numbers of this
\* module are indices of abstract lines; the harness maps them to the first physical line of each abstract line)
\* esprint: a @print whose string literal holds ESCAPED line breaks (backslash n / r): one physical line
\* bprint: a @print without an expression; sprint: a @print whose VALUE is a string with line breaks in it (or the empty
\* string): whatever the text is, the directive is delivered once, with its own line
StmtKinds == AttrKinds \cup {"union", "deprecated", "sealed", "extent", "assert", "print", "marker", "offq",
                             "assertfalse", "undef", "mlprint", "kprint", "esprint", "bprint", "sprint"}
HasStmt(l) == l.k \in StmtKinds
IsEmptyLine(l) == l.k = "empty" /\ ~l.c        \* the only line on which visit_line flushes

-----------------------------------------------------------------------------
(* Part 1: the machine *)

EmptyB == [fields |-> <<>>, consts |-> <<>>, doc |-> <<>>, mode |-> "none", union |-> FALSE, offc |-> FALSE]
NoErr  == [e |-> FALSE, line |-> 0]
\* log: the steps as the hooks of the implementation record them (Binding B): header flushes, commits of queued
\* attributes (with the line of their statement and their doc), dropped comments, statements; no-op flushes are omitted
St0 == [comment |-> <<>>, hdr |-> TRUE, pending |-> <<>>, structs |-> <<EmptyB>>, dep |-> FALSE,
        prints |-> <<>>, refs |-> <<>>, err |-> NoErr, log |-> <<>>]
Logged(s, e) == [s EXCEPT !.log = Append(@, e)]
StmtClass(k) == CASE k \in {"field"} -> "field" [] k \in {"const", "badconst", "kdef", "kuse"} -> "const" [] k = "pad" -> "pad"
                  [] k = "marker" -> "marker" [] OTHER -> "directive"

Failed(s) == s.err.e
Fail(s, n) == [s EXCEPT !.err = [e |-> TRUE, line |-> n]]
Cur(s) == s.structs[Len(s.structs)]
SetCur(s, b) == [s EXCEPT !.structs[Len(s.structs)] = b]
HasAttrs(b) == b.fields # <<>> \/ b.consts # <<>>

\* _flush_attribute -> the queued callback: construct the attribute with its doc and add it to the schema builder.
\* p = [k, i]: kind and source line of the attribute statement; now = the line being processed when the flush happens.
Commit(s, p, doc, now) ==
  LET b == Cur(s)
      errline == IF AsFoundDeferredLine THEN now ELSE p.i
  IN CASE p.k = "badconst" -> Fail(s, errline)                     \* Constant() raises InvalidConstantValueError
       [] p.k \in ConstKinds -> SetCur(s, [b EXCEPT !.consts = Append(@, [k |-> p.k, i |-> p.i, doc |-> doc])])
       [] OTHER            -> IF b.union /\ b.offc                    \* add_field after the offset was computed
                              THEN Fail(s, errline)
                              ELSE SetCur(s, [b EXCEPT !.fields = Append(@, [k |-> p.k, i |-> p.i, doc |-> doc])])

FlushComment(s, now) ==
  IF s.hdr THEN Logged([SetCur(s, [Cur(s) EXCEPT !.doc = s.comment]) EXCEPT !.hdr = FALSE, !.comment = <<>>],
                       [e |-> "hdr", doc |-> s.comment])
  ELSE IF s.pending # <<>>
       THEN [Commit(Logged([s EXCEPT !.pending = <<>>], [e |-> "commit", i |-> s.pending[1].i, doc |-> s.comment]),
                    s.pending[1], s.comment, now) EXCEPT !.comment = <<>>]
       ELSE IF s.comment # <<>> THEN Logged([s EXCEPT !.comment = <<>>], [e |-> "drop", doc |-> s.comment])
       ELSE s                                    \* a comment without an owner is dropped

\* resolve_top_level_identifier: the first constant named K among the attributes committed to the CURRENT section
KLine(b) == LET D == { j \in DOMAIN b.consts : b.consts[j].k = "kdef" } IN
              IF D = {} THEN 0 ELSE b.consts[CHOOSE j \in D : \A m \in D : j <= m].i
ReadsK(l) == l.k \in {"kuse", "kprint"}
Apply(s, l, i) ==
  LET b == Cur(s) IN
  CASE ReadsK(l) /\ KLine(b) = 0 -> Fail(s, i)                        \* undefined identifier
    [] l.k = "kprint" -> [s EXCEPT !.prints = Append(@, i), !.refs = Append(@, [i |-> i, ref |-> KLine(b), k |-> "kprint"])]
    [] l.k \in AttrKinds ->
         IF b.mode = "extent" THEN Fail(s, i)                        \* _on_attribute
         ELSE [s EXCEPT !.pending = <<[k |-> l.k, i |-> i]>>,          \* _queue_attribute
                        !.refs = IF l.k = "kuse" THEN Append(@, [i |-> i, ref |-> KLine(b), k |-> "kuse"]) ELSE @]
    [] l.k = "union" ->
         IF b.union \/ HasAttrs(b) THEN Fail(s, i) ELSE SetCur(s, [b EXCEPT !.union = TRUE])
    [] l.k = "deprecated" ->
         IF s.dep \/ Len(s.structs) > 1 \/ HasAttrs(b) THEN Fail(s, i) ELSE [s EXCEPT !.dep = TRUE]
    [] l.k = "sealed" -> IF b.mode # "none" THEN Fail(s, i) ELSE SetCur(s, [b EXCEPT !.mode = "sealed"])
    [] l.k = "extent" -> IF b.mode # "none" THEN Fail(s, i) ELSE SetCur(s, [b EXCEPT !.mode = "extent"])
    [] l.k = "assert" -> s
    [] l.k \in {"print", "mlprint", "esprint", "bprint", "sprint"} -> [s EXCEPT !.prints = Append(@, i)]
    [] l.k = "marker" ->
         IF Len(s.structs) > 1 THEN Fail(s, i)
         ELSE [s EXCEPT !.hdr = TRUE, !.structs = Append(@, EmptyB)]
    [] l.k = "offq"   -> SetCur(s, [b EXCEPT !.offc = TRUE])         \* DataSchemaBuilder.offset sets the flag
    [] l.k \in {"assertfalse", "undef"} -> Fail(s, i)

\* every statement visitor (and visit_identifier) flushes first
\* (an undefined identifier raises while the expression is visited, before the statement visitor runs)
Stmt(s, l, i) == LET f == FlushComment(s, i) IN
                   IF Failed(f) THEN f
                   ELSE Apply(IF l.k = "undef" \/ (ReadsK(l) /\ KLine(Cur(f)) = 0) THEN f
                              ELSE Logged(f, [e |-> "stmt", c |-> StmtClass(l.k), i |-> i]), l, i)
Comment(s, l, i) == IF l.c THEN [s EXCEPT !.comment = Append(@, i)] ELSE s
\* visit_line: only a line of length zero flushes (WhitespaceOnlyLineDoesNotFlush)
LineEnd(s, l, i) == IF IsEmptyLine(l) THEN FlushComment(s, i) ELSE s

Process(s, l, i) ==
  IF Failed(s) THEN s ELSE
  LET a == IF HasStmt(l) THEN Stmt(s, l, i) ELSE s
      b == IF Failed(a) THEN a ELSE Comment(a, l, i)
  IN IF Failed(b) THEN b ELSE LineEnd(b, l, i)

RECURSIVE RunFrom(_, _, _)
RunFrom(s, ls, i) == IF i > Len(ls) THEN s ELSE RunFrom(Process(s, ls[i], i), ls, i + 1)
Machine(ls) == RunFrom(St0, ls, 1)

\* end of input: the pending comment / attribute is flushed (line number = the last line)
\* (a flush with nothing to commit and no comment - e.g. right after the response marker - is skipped: it would only set an
\* empty header comment)
Final(s, n) == IF Failed(s) \/ AsFoundNoFinalFlush THEN s
               ELSE IF s.comment # <<>> \/ ~s.hdr THEN FlushComment(s, n) ELSE s

\* DataTypeBuilder.finalize: errors found here carry no line
SchemaOK(b) ==
  /\ b.mode # "none"
  /\ Cardinality({ j \in DOMAIN b.consts : b.consts[j].k = "kdef" }) <= 1        \* attribute names are unique
  /\ b.union => /\ Len(b.fields) >= 2
                /\ \A j \in DOMAIN b.fields : b.fields[j].k # "pad"

FirstSyntax(ls) == IF \E j \in DOMAIN ls : ls[j].k = "syntax"
                   THEN CHOOSE j \in DOMAIN ls : ls[j].k = "syntax" /\ \A m \in 1..(j - 1) : ls[m].k # "syntax"
                   ELSE 0

\* what DataTypeBuilder.finalize sees: per section the numbers of fields and constants, the union flag and the mode
FinalizeEvent(f) == [e |-> "finalize", dep |-> f.dep,
                     sections |-> [j \in DOMAIN f.structs |-> [nf |-> Len(f.structs[j].fields), nc |-> Len(f.structs[j].consts),
                                                              union |-> f.structs[j].union, mode |-> f.structs[j].mode]]]
\* The observable result of reading the text: the model's projection, or the error's line; plus the @print events.
Result(ls) ==
  IF FirstSyntax(ls) > 0 THEN [ok |-> FALSE, line |-> FirstSyntax(ls), prints |-> <<>>, refs |-> <<>>, log |-> <<>>]   \* nothing is visited
  ELSE LET f == Final(Machine(ls), Len(ls)) IN
       IF Failed(f) THEN [ok |-> FALSE, line |-> f.err.line, prints |-> f.prints, refs |-> f.refs, log |-> f.log]
       ELSE IF \E j \in DOMAIN f.structs : ~SchemaOK(f.structs[j])
            THEN [ok |-> FALSE, line |-> 0, prints |-> f.prints, refs |-> f.refs, log |-> Append(f.log, FinalizeEvent(f))]
            ELSE [ok |-> TRUE, service |-> (Len(f.structs) = 2), dep |-> f.dep, prints |-> f.prints, refs |-> f.refs,
                  log |-> Append(f.log, FinalizeEvent(f)),
                  parts |-> [j \in DOMAIN f.structs |->
                               [union |-> f.structs[j].union, mode |-> f.structs[j].mode, doc |-> f.structs[j].doc,
                                fields |-> f.structs[j].fields, consts |-> f.structs[j].consts]]]

-----------------------------------------------------------------------------
(* Part 2: the declarative mirror of a text *)

Markers(ls) == { j \in DOMAIN ls : ls[j].k = "marker" }
\* part (1 = message or request, 2 = response) a line belongs to
PartOf(ls, j) == IF \E m \in Markers(ls) : m < j THEN 2 ELSE 1
FieldLines(ls, p) == { j \in DOMAIN ls : ls[j].k \in {"field", "pad"} /\ PartOf(ls, j) = p }
ConstLines(ls, p) == { j \in DOMAIN ls : ls[j].k \in ConstKinds /\ PartOf(ls, j) = p }

RECURSIVE SortedSeq(_)
SortedSeq(S) == IF S = {} THEN <<>>
                ELSE LET m == CHOOSE x \in S : \A y \in S : x <= y IN <<m>> \o SortedSeq(S \ {m})

\* comment attached to the statement on line i: its own comment and the comments of the following lines up to the
\* first empty line or statement
Owned(ls, i) == { j \in i..Len(ls) : ls[j].c /\ \A m \in (i + 1)..j : ~HasStmt(ls[m]) /\ ~IsEmptyLine(ls[m]) }
IdealDoc(ls, i) == SortedSeq(Owned(ls, i))
\* header comment of the text: comments before the first statement or empty line
IdealHeader(ls) == SortedSeq({ j \in DOMAIN ls : ls[j].c /\ \A m \in 1..j : ~HasStmt(ls[m]) /\ ~IsEmptyLine(ls[m]) })

\* Static placement rules of the Specification (C05), stated on the text
PartLines(ls, p) == { j \in DOMAIN ls : PartOf(ls, j) = p /\ ls[j].k # "marker" }
NParts(ls) == IF Markers(ls) = {} THEN 1 ELSE 2
ValidPlacement(ls) ==
  /\ \A j \in DOMAIN ls : ls[j].k \notin {"badconst", "assertfalse", "undef", "syntax"}
  /\ Cardinality(Markers(ls)) <= 1
  /\ \A p \in 1..NParts(ls) :
       LET L == PartLines(ls, p)
           Modes == { j \in L : ls[j].k \in {"sealed", "extent"} }
           Unions == { j \in L : ls[j].k = "union" }
           Attrs == { j \in L : ls[j].k \in {"field", "pad"} \cup ConstKinds }
           KDefs == { j \in L : ls[j].k = "kdef" }
           Flds == { j \in L : ls[j].k \in {"field", "pad"} }
       IN /\ Cardinality(Modes) = 1                                      \* exactly one of @sealed / @extent
          /\ \A m \in Modes : ls[m].k = "extent" => \A a \in Attrs : a < m  \* @extent after the last attribute
          /\ Cardinality(Unions) <= 1
          /\ Cardinality(KDefs) <= 1                                      \* unique attribute names
          /\ \A q \in L : ReadsK(ls[q]) => \E d \in KDefs : d < q            \* identifiers are defined before use, in this part
          /\ \A u \in Unions : \A a \in Attrs : u < a                    \* @union before the first attribute
          /\ Unions # {} => /\ Cardinality({ j \in Flds : ls[j].k = "field" }) >= 2
                            /\ \A j \in Flds : ls[j].k # "pad"
                            \* inter-field offsets are undefined for unions
                            /\ \A q \in L : ls[q].k = "offq" => \A a \in Flds : a < q
  /\ LET Deps == { j \in DOMAIN ls : ls[j].k = "deprecated" } IN
       /\ Cardinality(Deps) <= 1
       /\ \A d \in Deps : PartOf(ls, d) = 1 /\ \A a \in DOMAIN ls : ls[a].k \in {"field", "pad"} \cup ConstKinds => d < a

-----------------------------------------------------------------------------
(* Part 3: enumeration and properties *)

Init == lines = <<>> /\ out = Result(<<>>)
AddLine == /\ Len(lines) < MaxLines
           /\ \E l \in (IF Failed(Machine(lines)) THEN AfterFailure ELSE Alphabet) :
                /\ lines' = Append(lines, l)
                /\ out' = Result(lines')
Spec == Init /\ [][AddLine]_vars

OutIsResult == out = Result(lines)

\* C03: every attribute statement exactly once, in source order, in the right part
NoLossNoDup ==
  out.ok => \A p \in DOMAIN out.parts :
               /\ [j \in DOMAIN out.parts[p].fields |-> out.parts[p].fields[j].i] = SortedSeq(FieldLines(lines, p))
               /\ [j \in DOMAIN out.parts[p].consts |-> out.parts[p].consts[j].i] = SortedSeq(ConstLines(lines, p))
KindsMirror ==
  out.ok => \A p \in DOMAIN out.parts : \A j \in DOMAIN out.parts[p].fields :
               out.parts[p].fields[j].k = lines[out.parts[p].fields[j].i].k
DocAttached ==
  out.ok => \A p \in DOMAIN out.parts :
               /\ \A j \in DOMAIN out.parts[p].fields :
                     out.parts[p].fields[j].doc = IdealDoc(lines, out.parts[p].fields[j].i)
               /\ \A j \in DOMAIN out.parts[p].consts :
                     out.parts[p].consts[j].doc = IdealDoc(lines, out.parts[p].consts[j].i)
HeaderMirror ==
  out.ok => /\ out.parts[1].doc = IdealHeader(lines)
            /\ out.service => \A m \in Markers(lines) : out.parts[2].doc = IdealDoc(lines, m)
FlagsMirror ==
  out.ok => /\ out.service = (Markers(lines) # {})
            /\ out.dep = (\E j \in DOMAIN lines : lines[j].k = "deprecated")
            /\ \A p \in DOMAIN out.parts :
                 /\ out.parts[p].union = (\E j \in PartLines(lines, p) : lines[j].k = "union")
                 /\ out.parts[p].mode = "sealed" <=> \E j \in PartLines(lines, p) : lines[j].k = "sealed"
                 /\ out.parts[p].mode = "extent" <=> \E j \in PartLines(lines, p) : lines[j].k = "extent"
PrintsMirror ==
  out.ok => out.prints = SortedSeq({ j \in DOMAIN lines : lines[j].k \in {"print", "mlprint", "kprint", "esprint", "bprint", "sprint"} })
\* an identifier denotes the constant of that name defined in its own part of the definition (never the other part's)
RefsMirror ==
  \A n \in DOMAIN out.refs :
     LET r == out.refs[n] IN
       /\ lines[r.ref].k = "kdef" /\ r.ref < r.i /\ PartOf(lines, r.ref) = PartOf(lines, r.i)
       /\ \A d \in DOMAIN lines : (lines[d].k = "kdef" /\ PartOf(lines, d) = PartOf(lines, r.i)) => r.ref <= d
RefsComplete ==
  out.ok => { out.refs[n].i : n \in DOMAIN out.refs } = { j \in DOMAIN lines : ReadsK(lines[j]) }

\* C05 (directive placement part): accepted iff the placement rules hold
AcceptIffValid == out.ok <=> ValidPlacement(lines)

\* C17: a reported line is the line of the offending statement
FaultLine(ls) ==   \* the first line (in visiting order) whose statement is at fault, 0 if only finalization fails
  LET r == Result(ls) IN r.line
ErrLineIsStatementLine ==
  ~out.ok /\ out.line # 0 =>
     /\ out.line \in DOMAIN lines
     /\ HasStmt(lines[out.line]) \/ lines[out.line].k = "syntax"
     \* the statement on that line is itself the offender: removing every LATER line keeps the error there
     /\ LET r == Result(SubSeq(lines, 1, out.line)) IN ~r.ok /\ r.line = out.line
\* prints delivered before a failure are exactly the @print lines before the failing line
PrintsBeforeError ==
  ~out.ok /\ out.line # 0 /\ FirstSyntax(lines) = 0 =>
     out.prints = SortedSeq({ j \in DOMAIN lines : lines[j].k \in {"print", "mlprint", "kprint", "esprint", "bprint", "sprint"} /\ j < out.line })

\* step level: every attribute statement is committed exactly once, after its statement and before finalization
CommitOncePerStatement ==
  out.ok => LET C == { j \in DOMAIN out.log : out.log[j].e = "commit" }
                S == { j \in DOMAIN out.log : out.log[j].e = "stmt" /\ out.log[j].c \in {"field", "const", "pad"} } IN
              /\ Cardinality(C) = Cardinality(S)
              /\ \A s \in S : \E c \in C : c > s /\ out.log[c].i = out.log[s].i
              /\ \A c1, c2 \in C : c1 # c2 => out.log[c1].i # out.log[c2].i
\* C03: formatting invariance.  Structure = everything but doc comments.
Structure(r) ==
  IF r.ok THEN [ok |-> TRUE, service |-> r.service, dep |-> r.dep, nprints |-> Len(r.prints),
                parts |-> [p \in DOMAIN r.parts |->
                   [union |-> r.parts[p].union, mode |-> r.parts[p].mode,
                    fields |-> [j \in DOMAIN r.parts[p].fields |-> r.parts[p].fields[j].k],
                    nconsts |-> Len(r.parts[p].consts)]]]
  ELSE [ok |-> FALSE]
InsertAt(ls, p, l) == SubSeq(ls, 1, p) \o <<l>> \o SubSeq(ls, p + 1, Len(ls))
Neutral == { [k |-> "empty", c |-> FALSE], [k |-> "blank", c |-> FALSE], [k |-> "empty", c |-> TRUE] }
\* inserting an empty line, a blank line or a comment line anywhere leaves the structure unchanged and shifts the
\* error line accordingly
NeutralInsert ==
  \A p \in 0..Len(lines) : \A l \in Neutral :
     LET r == Result(InsertAt(lines, p, l)) IN
       /\ Structure(r) = Structure(out)
       /\ ~out.ok => r.line = (IF out.line > p THEN out.line + 1 ELSE out.line)
\* the final newline: appending an empty last line changes nothing at all (docs included)
FinalNewline ==
  LET r == Result(Append(lines, [k |-> "empty", c |-> FALSE])) IN
    IF out.ok THEN [r EXCEPT !.log = <<>>] = [out EXCEPT !.log = <<>>]
    ELSE ~r.ok /\ r.line = out.line /\ r.prints = out.prints
\* a run of blank characters on an otherwise empty line IS observable in doc comments only
BlankVsEmptyStructure ==
  \A p \in DOMAIN lines : lines[p].k = "blank" =>
     Structure(Result([lines EXCEPT ![p] = [k |-> "empty", c |-> FALSE]])) = Structure(out)
=============================================================================
