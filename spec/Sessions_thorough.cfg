SPECIFICATION Spec
CONSTANTS MaxLen = 3 Variants = {1, 2, 3, 4, 5, 6} Locs = {"same", "copy"}
INVARIANT HistoryIndependent
INVARIANT Idempotent
CHECK_DEADLOCK FALSE
