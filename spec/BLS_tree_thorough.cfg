SPECIFICATION TreeSpec
CONSTANTS LeafMax = 6 LeafCard = 2 KMax = 3 RMax = 4 DMax = 8 Growth = 2 LemmaD = 1 PoolLen = 1
INVARIANT SolverExact
INVARIANT OutIsMeaning
INVARIANT NonEmptyNat
CHECK_DEADLOCK FALSE
