------------------------------- MODULE BLSOps -------------------------------
(***************************************************************************)
(* Pure operators of the bit length set specification (no variables):      *)
(* numeric meaning, operator trees, the analytic solver as designed in     *)
(* pydsdl/_bit_length_set/_symbolic.py, and the enumeration-cost model.    *)
(* Used by BitLengthSets.tla (case enumeration), BLSRecords.tla (call      *)
(* records), Layout.tla and Trace_Solver.tla.                              *)
(***************************************************************************)
EXTENDS Naturals, Integers, Sequences, FiniteSets, TLC

(* Part 1: numeric meaning *)

MaxOf(S) == CHOOSE x \in S : \A y \in S : y <= x
MinOf(S) == CHOOSE x \in S : \A y \in S : x <= y
PlusSet(A, B) == { a + b : a \in A, b \in B }        \* FiniteSetsExt owns the name SumSet
ModSet(A, d)  == { a % d : a \in A }
Pad1(x, r)    == ((x + r - 1) \div r) * r
PadSet(A, r)  == { Pad1(x, r) : x \in A }

RECURSIVE KFold(_, _)
KFold(A, k) == IF k = 0 THEN {0} ELSE PlusSet(KFold(A, k - 1), A)
KFoldRange(A, k) == UNION { KFold(A, j) : j \in 0..k }

RECURSIVE CatSets(_)
CatSets(ss) == IF Len(ss) = 0 THEN {0} ELSE PlusSet(Head(ss), CatSets(Tail(ss)))

RECURSIVE Gcd(_, _)
Gcd(a, b) == IF b = 0 THEN a ELSE Gcd(b, a % b)
Lcm(a, b) == (a * b) \div Gcd(a, b)

(* Operator trees *)
Leaf(S)     == [op |-> "leaf", s |-> S]
PadT(t, r)  == [op |-> "pad", c |-> t, r |-> r]
RepT(t, k)  == [op |-> "rep", c |-> t, k |-> k]
RngT(t, k)  == [op |-> "rng", c |-> t, k |-> k]
CatT(ch)    == [op |-> "cat", ch |-> ch]
UniT(ch)    == [op |-> "uni", ch |-> ch]

RECURSIVE Expand(_)
Expand(t) ==
  CASE t.op = "leaf" -> t.s
    [] t.op = "pad"  -> PadSet(Expand(t.c), t.r)
    [] t.op = "rep"  -> KFold(Expand(t.c), t.k)
    [] t.op = "rng"  -> KFoldRange(Expand(t.c), t.k)
    [] t.op = "cat"  -> CatSets([i \in DOMAIN t.ch |-> Expand(t.ch[i])])
    [] t.op = "uni"  -> UNION { Expand(t.ch[i]) : i \in DOMAIN t.ch }

-----------------------------------------------------------------------------
(* Part 2: the analytic solver, as designed *)

\* RepetitionOperator.modulo: equivalent_k = min(k, divisor + k % divisor)
EquivK(k, d) == IF k < d + (k % d) THEN k ELSE d + (k % d)

\* {sum(el) % d for el in combinations_with_replacement(R, k)}
RECURSIVE KFoldMod(_, _, _)
KFoldMod(R, k, d) == IF k = 0 THEN {0} ELSE ModSet(PlusSet(KFoldMod(R, k - 1, d), R), d)

RECURSIVE SMod(_, _), SMin(_), SMax(_)
SMod(t, d) ==
  CASE t.op = "leaf" -> ModSet(t.s, d)
    [] t.op = "pad"  -> LET l == Lcm(t.r, d) IN { Pad1(x, t.r) % d : x \in SMod(t.c, l) }
    [] t.op = "rep"  -> KFoldMod(SMod(t.c, d), EquivK(t.k, d), d)
    [] t.op = "rng"  -> LET R == SMod(t.c, d) IN UNION { KFoldMod(R, j, d) : j \in 0..EquivK(t.k, d) }
    [] t.op = "cat"  -> ModSet(CatSets([i \in DOMAIN t.ch |-> SMod(t.ch[i], d)]), d)
    [] t.op = "uni"  -> UNION { SMod(t.ch[i], d) : i \in DOMAIN t.ch }

RECURSIVE SumSeq(_)
SumSeq(s) == IF Len(s) = 0 THEN 0 ELSE Head(s) + SumSeq(Tail(s))

SMin(t) ==
  CASE t.op = "leaf" -> MinOf(t.s)
    [] t.op = "pad"  -> Pad1(SMin(t.c), t.r)
    [] t.op = "rep"  -> SMin(t.c) * t.k
    [] t.op = "rng"  -> 0
    [] t.op = "cat"  -> SumSeq([i \in DOMAIN t.ch |-> SMin(t.ch[i])])
    [] t.op = "uni"  -> MinOf({ SMin(t.ch[i]) : i \in DOMAIN t.ch })
SMax(t) ==
  CASE t.op = "leaf" -> MaxOf(t.s)
    [] t.op = "pad"  -> Pad1(SMax(t.c), t.r)
    [] t.op = "rep"  -> SMax(t.c) * t.k
    [] t.op = "rng"  -> SMax(t.c) * t.k
    [] t.op = "cat"  -> SumSeq([i \in DOMAIN t.ch |-> SMax(t.ch[i])])
    [] t.op = "uni"  -> MaxOf({ SMax(t.ch[i]) : i \in DOMAIN t.ch })

\* design check usable without constants: analytic answers equal the numeric meaning for divisors 1..8
SolverExactFor8(t) ==
  LET E == Expand(t) IN
     /\ SMin(t) = MinOf(E)
     /\ SMax(t) = MaxOf(E)
     /\ \A d \in 1..8 : SMod(t, d) = ModSet(E, d)
-----------------------------------------------------------------------------
(* Cost model (C16): number of tuples the design enumerates to answer       *)
(* SMod(t, d).  combinations_with_replacement(R, k) has C(|R|+k-1, k)       *)
(* elements.                                                                *)
RECURSIVE Binom(_, _)
Binom(n, k) == IF k = 0 THEN 1 ELSE IF n < k THEN 0 ELSE (Binom(n - 1, k - 1) * n) \div k
MultiChoose(n, k) == IF n = 0 THEN (IF k = 0 THEN 1 ELSE 0) ELSE Binom(n + k - 1, k)

RepCost(R, k, d) == MultiChoose(Cardinality(R), EquivK(k, d))
RECURSIVE RngCostUpTo(_, _)
RngCostUpTo(n, j) == IF j = 0 THEN 1 ELSE MultiChoose(n, j) + RngCostUpTo(n, j - 1)
RngCost(R, k, d) == RngCostUpTo(Cardinality(R), EquivK(k, d))

=============================================================================
