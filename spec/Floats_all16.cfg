SPECIFICATION Spec
CONSTANTS Formats = {16} AllFractions = TRUE
INVARIANT RoundTripExact
INVARIANT NeighbourRule
INVARIANT Nearest
INVARIANT Specials
CHECK_DEADLOCK FALSE
