-------------------------------- MODULE Rules --------------------------------
(***************************************************************************)
(* C05: the static rules of DSDL as a predicate Valid over abstract        *)
(* definitions.  A definition is a skeleton (one field `value` of type      *)
(* uint8, @sealed, message, version 1.0, no port-ID, vendor root) in which  *)
(* up to MaxDev dimensions deviate.  Each rule group of the statement is a  *)
(* named predicate over SEMANTIC attributes (widths, capacities, ranges);   *)
(* only the legality of name tokens is a table (the Specification's list   *)
(* of reserved words and patterns cannot be computed on atomic strings).   *)
(***************************************************************************)
EXTENDS Integers, Sequences, FiniteSets, TLC

CONSTANTS MaxDev

VARIABLES ph, case, out
vars == <<ph, case, out>>

-----------------------------------------------------------------------------
(* dimension value pools; the first listed value of each pool is the skeleton's *)
FT(base, n, cast, arr, cap) == [base |-> base, n |-> n, cast |-> cast, arr |-> arr, cap |-> cap]
FieldTypes ==
  { FT("uint", 8, "", "none", 0) } \cup
  { FT("uint", n, c, "none", 0) : n \in {1, 64, 65, 100}, c \in {"", "saturated", "truncated"} } \cup
  { FT("int", n, c, "none", 0) : n \in {1, 2, 64, 65}, c \in {"", "saturated", "truncated"} } \cup
  { FT("float", n, c, "none", 0) : n \in {16, 32, 64, 8, 17, 128}, c \in {"", "truncated"} } \cup
  { FT("bool", 1, "", "none", 0), FT("void", 8, "", "none", 0), FT("void", 64, "", "none", 0), FT("void", 65, "", "none", 0),
    FT("utf8", 8, "", "none", 0), FT("byte", 8, "", "none", 0) } \cup
  { FT(b, 8, "", a, c) : b \in {"uint", "utf8", "byte", "void", "bool"}, a \in {"fix", "le", "lt"}, c \in {0, 1, 2} } \cup
  \* capacities that are not natural numbers: -1 stands for the fraction 5/2, -2 for the integer -2 (rendered by the harness)
  { FT("uint", 8, "", a, c) : a \in {"fix", "le", "lt"}, c \in {0 - 1, 0 - 2} }

\* name tokens: [t |-> text, legal |-> as the Specification's naming rules decide]
NameTable ==
  { [t |-> x, legal |-> TRUE] : x \in {"value", "_x", "x1", "a_b", "Z9_", "com", "com10", "lpt", "intx", "uint8x", "q16", "floats",
                                     "voids", "boolean", "consts", "typed", "nullable", "x_y_", "_q",
                                     \* near misses of the reserved patterns
                                     "lpt10", "coma", "avoid", "sint8", "int_8", "float_16", "afloat", "q16_", "uq", "q1_1x", "uq8", "void_1"} } \cup
  { [t |-> x, legal |-> FALSE] : x \in {"truncated", "Saturated", "TRUE", "false", "bool", "BOOL", "void", "Void7", "int", "INT", "uint",
                                      "Uint8", "int64", "q16_8", "UQ1_15", "float", "Float32", "optional", "aligned", "const",
                                      "struct", "super", "template", "enum", "self", "and", "or", "not", "auto", "type", "con",
                                      "prn", "aux", "nul", "COM1", "lpt9", "_x_", "__", "_a_b_",
                                      \* every digit of the device names, digit-less / long forms of the type-like patterns
                                      "com0", "com5", "LPT0", "lpt1", "void0", "void128", "VOID", "uint0", "int128", "float1", "float128",
                                      "q1_1", "uq16_16", "Q8_8",
                                      \* characters outside [A-Za-z0-9_] / a leading digit (the harness substitutes the text)
                                      "UNI_LETTER", "UNI_DIGIT", "UNI_MARK", "9lives", "has-dash"} }
Dups == {"none", "fieldfield", "fieldconst", "constconst", "caseonly"}          \* caseonly: names differing only by case are distinct
Kinds == {"struct", "union2", "union1", "union3", "unionpad", "unionconst1"}     \* unionconst1: one variant + one constant
Modes == {"sealed", "ext0", "extplus8", "extminus8", "extplus3", "none", "both", "extfirst", "sealedtwice", "extexpr", "extthenconst", "sealedthenconst",
          \* extent expressions that are not natural numbers: longest + 8 + 1/2, a negative number, a string, a boolean, a set
          "exthalf", "extneg", "extstr", "extbool", "extset"}
\* both_use_dep: a deprecated sibling definition, read first, uses the same deprecated type (legal there) - the definition
\* under test, not deprecated, uses it too (illegal)
Deps == {"none", "uses_dep", "dep_uses_dep", "uses_dep_array", "uses_nondep", "both_use_dep", "both_dep_use_dep"}
Versions == { <<1, 0>>, <<0, 1>>, <<255, 255>>, <<0, 0>>, <<256, 0>>, <<1, 256>>, <<0, 255>> }
\* port: [has, id, root ("vendor"/"standard"), allow, svc]
Ports == { [has |-> FALSE, id |-> 0, root |-> "vendor", allow |-> FALSE, svc |-> FALSE] } \cup
         { [has |-> TRUE, id |-> i, root |-> r, allow |-> a, svc |-> FALSE] :
             i \in {0, 6143, 6144, 7167, 7168, 8191, 8192}, r \in {"vendor", "standard"}, a \in BOOLEAN } \cup
         { [has |-> TRUE, id |-> i, root |-> r, allow |-> a, svc |-> TRUE] :
             i \in {0, 255, 256, 383, 384, 511, 512}, r \in {"vendor", "standard"}, a \in BOOLEAN } \cup
         { [has |-> FALSE, id |-> 0, root |-> "vendor", allow |-> FALSE, svc |-> TRUE] }
TypeNames == { [t |-> "Msg", legal |-> TRUE] } \cup { n \in NameTable : n.t \in {"x1", "Uint8", "int", "_x_", "com", "COM1", "Z9_", "optional", "com0", "LPT0", "float128", "q1_1", "coma",
                                                                                  "UNI_LETTER", "UNI_DIGIT", "UNI_MARK", "9lives", "has-dash"} }
NsNames == { [t |-> "sub", legal |-> TRUE] } \cup { n \in NameTable : n.t \in {"_q", "Float32", "uint", "__", "lpt", "lpt9", "type", "com0", "lpt1", "void0", "uq16_16", "lpt10",
                                                                                "UNI_LETTER", "UNI_DIGIT", "UNI_MARK", "9lives", "has-dash"} }
Directives == {"none", "unknown", "sealedexpr", "unionlate", "deprtwice", "uniontwice", "deprlate", "assertnoexpr", "assertnonbool", "extnoexpr"}

Skeleton == [ft |-> FT("uint", 8, "", "none", 0), name |-> [t |-> "value", legal |-> TRUE], dup |-> "none", kind |-> "struct",
             mode |-> "sealed", dep |-> "none", ver |-> <<1, 0>>,
             port |-> [has |-> FALSE, id |-> 0, root |-> "vendor", allow |-> FALSE, svc |-> FALSE],
             tname |-> [t |-> "Msg", legal |-> TRUE], nsname |-> [t |-> "sub", legal |-> TRUE], dir |-> "none"]
Pool(d) == CASE d = "ft" -> FieldTypes [] d = "name" -> NameTable [] d = "dup" -> Dups [] d = "kind" -> Kinds [] d = "mode" -> Modes
             [] d = "dep" -> Deps [] d = "ver" -> Versions [] d = "port" -> Ports [] d = "tname" -> TypeNames
             [] d = "nsname" -> NsNames [] d = "dir" -> Directives
DimNames == {"ft", "name", "dup", "kind", "mode", "dep", "ver", "port", "tname", "nsname", "dir"}

-----------------------------------------------------------------------------
(* the rules *)
IsUnion(c) == c.kind # "struct"
\* legal bit widths and cast modes
WidthOK(ft) ==
  CASE ft.base = "uint" -> ft.n >= 1 /\ ft.n <= 64
    [] ft.base = "int" -> ft.n >= 2 /\ ft.n <= 64 /\ ft.cast # "truncated"       \* no truncated signed integers
    [] ft.base = "float" -> ft.n \in {16, 32, 64}
    [] ft.base = "void" -> ft.n >= 1 /\ ft.n <= 64
    [] OTHER -> TRUE
\* array capacity >= 1 ([<n] has capacity n - 1)
Capacity(ft) == IF ft.arr = "lt" THEN ft.cap - 1 ELSE ft.cap
CapacityOK(ft) == ft.arr # "none" => Capacity(ft) >= 1
\* void only as (unnamed) structure padding; utf8 only as element of variable-length arrays; byte only as array element
VoidOK(c) == c.ft.base = "void" => c.ft.arr = "none" /\ ~IsUnion(c)
Utf8OK(ft) == ft.base = "utf8" => ft.arr \in {"le", "lt"}
ByteOK(ft) == ft.base = "byte" => ft.arr # "none"
\* names
NamesOK(c) == (c.ft.base = "void" \/ c.name.legal) /\ c.tname.legal /\ c.nsname.legal
UniqueOK(c) == c.dup \in {"none", "caseonly"}
\* unions: at least two variants, no padding
\* (the deviations of other dimensions add fields too: a dependency field, the duplicate-name probes)
Variants(c) == (CASE c.kind \in {"union1", "unionconst1"} -> 1 [] c.kind \in {"union2", "unionpad"} -> 2 [] c.kind = "union3" -> 3 [] OTHER -> 0)
               + (IF c.dep # "none" THEN 1 ELSE 0)
               + (CASE c.dup \in {"fieldfield", "caseonly"} -> 2 [] c.dup = "fieldconst" -> 1 [] OTHER -> 0)
UnionOK(c) == IsUnion(c) => Variants(c) >= 2 /\ c.kind # "unionpad"
\* deprecation
DeprecationOK(c) == c.dep \notin {"uses_dep", "uses_dep_array", "both_use_dep"}
\* exactly one of @sealed / @extent, @extent after the last attribute, byte multiple, not smaller than the longest representation
\* (a constant is an attribute too: it may follow @sealed but not @extent)
ModeOK(c) == c.mode \in {"sealed", "ext0", "extplus8", "extexpr", "sealedthenconst"}
\* directives
DirectiveOK(c) == c.dir = "none"
\* versions
VersionOK(c) == /\ c.ver[1] >= 0 /\ c.ver[1] <= 255 /\ c.ver[2] >= 0 /\ c.ver[2] <= 255
                /\ ~(c.ver[1] = 0 /\ c.ver[2] = 0)
\* port-IDs: within the subject / service range and, unless allowed, within the regulated range of the root namespace
PortOK(c) ==
  LET p == c.port IN
  p.has =>
    /\ p.id >= 0 /\ p.id <= (IF p.svc THEN 511 ELSE 8191)
    /\ p.allow \/ (IF p.svc
                   THEN (IF p.root = "standard" THEN p.id >= 384 /\ p.id <= 511 ELSE p.id >= 256 /\ p.id <= 383)
                   ELSE (IF p.root = "standard" THEN p.id >= 7168 /\ p.id <= 8191 ELSE p.id >= 6144 /\ p.id <= 7167))

Valid(c) ==
  /\ WidthOK(c.ft) /\ CapacityOK(c.ft) /\ VoidOK(c) /\ Utf8OK(c.ft) /\ ByteOK(c.ft)
  /\ NamesOK(c) /\ UniqueOK(c) /\ UnionOK(c) /\ DeprecationOK(c) /\ ModeOK(c) /\ DirectiveOK(c) /\ VersionOK(c) /\ PortOK(c)
Failing(c) ==    \* the rule groups a definition violates (evidence / diagnostics)
  { r \in {"width", "capacity", "void", "utf8", "byte", "names", "unique", "union", "deprecation", "mode", "directive", "version", "port"} :
      ~(CASE r = "width" -> WidthOK(c.ft) [] r = "capacity" -> CapacityOK(c.ft) [] r = "void" -> VoidOK(c) [] r = "utf8" -> Utf8OK(c.ft)
          [] r = "byte" -> ByteOK(c.ft) [] r = "names" -> NamesOK(c) [] r = "unique" -> UniqueOK(c) [] r = "union" -> UnionOK(c)
          [] r = "deprecation" -> DeprecationOK(c) [] r = "mode" -> ModeOK(c) [] r = "directive" -> DirectiveOK(c)
          [] r = "version" -> VersionOK(c) [] r = "port" -> PortOK(c)) }

-----------------------------------------------------------------------------
Deviations(c) == { d \in DimNames : c[d] # Skeleton[d] }
Init == ph = 0 /\ case = Skeleton /\ out = [valid |-> Valid(Skeleton), failing |-> Failing(Skeleton)]
Deviate ==
  /\ ph < MaxDev
  /\ \E d \in DimNames \ Deviations(case) : \E v \in Pool(d) \ {Skeleton[d]} :
       /\ case' = [case EXCEPT ![d] = v]
       /\ out' = [valid |-> Valid(case'), failing |-> Failing(case')]
  /\ ph' = ph + 1
Spec == Init /\ [][Deviate]_vars

SkeletonValid == Valid(Skeleton)
OutConsistent == out.valid = (out.failing = {})
=============================================================================
