SPECIFICATION Spec
CONSTANTS AsFoundJoin = FALSE AsFoundOrder = TRUE
INVARIANT NeverWrongIdentity
INVARIANT PromisedSucceeds
CHECK_DEADLOCK FALSE
