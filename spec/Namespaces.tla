----------------------------- MODULE Namespaces -----------------------------
(***************************************************************************)
(* C10: what read_namespace returns for a directory tree, and which sets   *)
(* of root / lookup directories are admissible.                            *)
(*                                                                         *)
(* Part 1 (Tree...): a root namespace directory "r" with definition files at *)
(* nesting depth 0..2 (r/, r/n1/, r/n1/n2/), extensions .dsdl and the      *)
(* legacy .uavcan, several versions; and a lookup directory with files of  *)
(* its own.  The implementation globs each directory recursively in        *)
(* file-system order, collects (path, root) pairs in a SET (hash order),   *)
(* builds one definition per pair and sorts by (full name, -major,         *)
(* -minor).  enum is the nondeterministic enumeration order; the result    *)
(* must not depend on it.                                                  *)
(* Part 2 (Dirs...): directory arguments as (spelling, resolved path) pairs  *)
(* over a small abstract file system with a nested directory, case         *)
(* variants, equal names under different parents and a symlink alias.      *)
(***************************************************************************)
EXTENDS Naturals, Sequences, FiniteSets, TLC

CONSTANTS MaxFiles, AsFoundTopLevelLegacyOnly

VARIABLES ph, case, out
vars == <<ph, case, out>>

-----------------------------------------------------------------------------
(* Part 1 *)
Names == {"P", "z"}
Vers == { <<1, 0>>, <<1, 213>>, <<2, 0>> }          \* a minor above 99 next to a newer major
FilePool == { [root |-> r, depth |-> d, name |-> n, maj |-> v[1], min |-> v[2], ext |-> e] :
                r \in {"t", "l"}, d \in 0..2, n \in Names, v \in Vers, e \in {"dsdl", "uavcan"} }
\* the (name, version) of a definition must be unique within a namespace
Key(f) == <<f.root, f.depth, f.name, f.maj, f.min>>
Injective(S) == \A a, b \in S : a # b => Key(a) # Key(b)

\* "sorted by full name": the dotted names compare as strings, which for name characters (all above the dot) is the
\* lexicographic order of the component sequences; a lower-case type name ("z") sorts AFTER the nested namespaces
\* ("n1", "n2"), an upper-case one before them
CompRank(c) == CASE c = "P" -> 1 [] c = "Q" -> 2 [] c = "n1" -> 3 [] c = "n2" -> 4 [] c = "r" -> 5 [] c = "z" -> 6
NameSeq(f) == <<"r">> \o (IF f.depth = 0 THEN <<>> ELSE IF f.depth = 1 THEN <<"n1">> ELSE <<"n1", "n2">>) \o <<f.name>>
RECURSIVE LexLess(_, _)
LexLess(a, b) == IF a = <<>> THEN b # <<>>
                 ELSE IF b = <<>> THEN FALSE
                 ELSE IF Head(a) # Head(b) THEN CompRank(Head(a)) < CompRank(Head(b))
                 ELSE LexLess(Tail(a), Tail(b))
Before(a, b) == \/ LexLess(NameSeq(a), NameSeq(b))
                \/ NameSeq(a) = NameSeq(b) /\ a.maj > b.maj
                \/ NameSeq(a) = NameSeq(b) /\ a.maj = b.maj /\ a.min > b.min
RECURSIVE SortFiles(_)
SortFiles(S) == IF S = {} THEN <<>>
                ELSE LET m == CHOOSE x \in S : \A y \in S \ {x} : Before(x, y) IN <<m>> \o SortFiles(S \ {m})

\* implementation-shaped: glob in enumeration order, set, sort (insertion into a sorted sequence, stable)
Globbed(files, root) == { f \in files : f.root = root /\ (AsFoundTopLevelLegacyOnly => (f.ext = "dsdl" \/ f.depth = 0)) }
RECURSIVE InsertSorted(_, _)
InsertSorted(seq, f) == IF seq = <<>> THEN <<f>>
                        ELSE IF Before(f, Head(seq)) THEN <<f>> \o seq ELSE <<Head(seq)>> \o InsertSorted(Tail(seq), f)
RECURSIVE SortByInsertion(_, _)
SortByInsertion(enum, acc) == IF enum = <<>> THEN acc ELSE SortByInsertion(Tail(enum), InsertSorted(acc, Head(enum)))
Pipeline(enum) == SortByInsertion(enum, <<>>)

TreeResult(files) == SortFiles(Globbed(files, "t"))

TreeInit == ph = 0 /\ case = [files |-> {}, enum |-> <<>>] /\ out = <<>>
AddFile == /\ ph = 0 /\ Cardinality(case.files) < MaxFiles
           /\ \E f \in FilePool : f \notin case.files /\ Injective(case.files \cup {f})
                /\ case' = [files |-> case.files \cup {f}, enum |-> <<>>]
                /\ out' = TreeResult(case'.files)
           /\ ph' = 0
TreeNext == AddFile
TreeSpec == TreeInit /\ [][TreeNext]_vars

EnumOrders(S) == { s \in [1..Cardinality(S) -> S] : \A i, j \in 1..Cardinality(S) : i # j => s[i] # s[j] }
Complete   == { out[j] : j \in DOMAIN out } = { f \in case.files : f.root = "t" }
OnePerFile == Len(out) = Cardinality({ f \in case.files : f.root = "t" })
Sorted     == \A i \in 1..(Len(out) - 1) : Before(out[i], out[i + 1])
\* whatever order the file system and the hash seed produce, the pipeline yields the same list
OrderIndependent == \A e \in EnumOrders(Globbed(case.files, "t")) : Pipeline(e) = out

-----------------------------------------------------------------------------
(* Part 2: directory arguments *)
\* resolved directories of the abstract file system (path components)
\* (the last: a sibling whose path, compared as a STRING, lies between "w/a" and "w/a/n" - a dash sorts before the slash)
Dirs == { <<"w", "a">>, <<"w", "b">>, <<"w", "a", "n">>, <<"w", "Ab">>, <<"w", "aB">>, <<"v", "a">>, <<"w", "B">>, <<"w", "a-x", "c">> }
LowerName(p) == LET n == p[Len(p)] IN CASE n = "Ab" -> "ab" [] n = "aB" -> "ab" [] n = "B" -> "b" [] OTHER -> n
IsInside(q, p) == Len(q) > Len(p) /\ SubSeq(q, 1, Len(p)) = p
\* an argument is a spelling of a resolved directory: absolute, relative to the working directory, or through a symlink
Spellings == {"abs", "rel", "link"}
Args == { [dir |-> d, sp |-> s] : d \in Dirs, s \in Spellings }

\* the rule of the property
DirsRejected(S, allow) ==
  \E p, q \in S : p # q /\ (IsInside(q, p) \/ (~allow /\ LowerName(p) = LowerName(q)))

\* (C09) every namespace of the harness holds a definition that refers to a sibling by its relative name: the reference is
\* ambiguous - hence rejected - when another admitted directory provides a namespace of the same name ignoring case
Ambiguous(root, S) == \E q \in S : q # root /\ LowerName(q) = LowerName(root)
DirsInit == ph = 0 /\ case = [root |-> [dir |-> <<"w", "a">>, sp |-> "abs"], lookups |-> <<>>, allow |-> TRUE] /\ out = FALSE
DirsPick == /\ ph = 0
            /\ \E r \in Args, allow \in BOOLEAN :
                 \E ls \in {<<>>} \cup { <<x>> : x \in Args } \cup { <<x, y>> : x \in Args, y \in Args } :
                   /\ case' = [root |-> r, lookups |-> ls, allow |-> allow]
                   /\ out' = (DirsRejected({r.dir} \cup { ls[j].dir : j \in DOMAIN ls }, allow)
                              \/ Ambiguous(r.dir, {r.dir} \cup { ls[j].dir : j \in DOMAIN ls }))
            /\ ph' = 1
DirsSpec == DirsInit /\ [][DirsPick]_vars
\* duplicates, order and spelling of the arguments are irrelevant: the verdict is a function of the set of resolved dirs
VerdictBySet ==
  ph = 1 => LET S == {case.root.dir} \cup { case.lookups[j].dir : j \in DOMAIN case.lookups } IN
              out = (DirsRejected(S, case.allow) \/ Ambiguous(case.root.dir, S))
=============================================================================
