SPECIFICATION TreeSpec
CONSTANTS MaxFiles = 4 AsFoundTopLevelLegacyOnly = FALSE
INVARIANT Complete
INVARIANT OnePerFile
INVARIANT Sorted
INVARIANT OrderIndependent
CHECK_DEADLOCK FALSE
