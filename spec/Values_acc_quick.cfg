SPECIFICATION ASpec
CONSTANTS Mode = "acc" MaxSteps = 2 AsFoundAlias = FALSE
INVARIANT ProjectionUnchanged
CHECK_DEADLOCK FALSE
