SPECIFICATION Spec
CONSTANTS Mode = "kinds" Deep = FALSE
INVARIANT WellFormedValue
INVARIANT RatNormal
CHECK_DEADLOCK FALSE
