SPECIFICATION Spec
CONSTANTS Names = {"T", "Tabby_2", "x9", "A_"} Vers <- VersThorough SubjectPorts = {0, 1, 7509, 6143, 8191} ServicePorts = {0, 1, 430, 511}
CONSTANTS AsFoundJoin = FALSE AsFoundOrder = FALSE
INVARIANT IdentityShape
INVARIANT PartsShape
INVARIANT DesignationIrrelevant
INVARIANT NeverWrongIdentity
INVARIANT PromisedSucceeds
CHECK_DEADLOCK FALSE
