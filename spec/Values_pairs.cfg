SPECIFICATION PSpec
CONSTANTS Mode = "pairs" AsFoundAlias = FALSE
INVARIANT KeyEqualityLaws
CHECK_DEADLOCK FALSE
