SPECIFICATION PSpec
CONSTANTS Mode = "pairs" MaxSteps = 3 AsFoundAlias = FALSE
INVARIANT KeyEqualityLaws
CHECK_DEADLOCK FALSE
