SPECIFICATION PoolSpec
CONSTANTS LeafMax = 4 LeafCard = 2 KMax = 3 RMax = 4 DMax = 8 Growth = 2 LemmaD = 1 PoolLen = 4
INVARIANT MemoTransparent
INVARIANT PoolSolverExact
PROPERTY OperandsUnchanged
CHECK_DEADLOCK FALSE
