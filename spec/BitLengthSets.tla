--------------------------- MODULE BitLengthSets ---------------------------
(***************************************************************************)
(* Bit length sets of pydsdl (pydsdl/_bit_length_set).                     *)
(*                                                                         *)
(* Part 1: the numeric MEANING of the five composition operators (this is  *)
(*         the Specification's definition: element-wise sums over          *)
(*         cartesian products, unions, k-fold multiset sums, rounding up   *)
(*         to a multiple of the alignment).                                *)
(* Part 2: the analytic SOLVER as designed in _symbolic.py, transcribed     *)
(*         operator by operator (SMin, SMax, SMod with the reduction of     *)
(*         the repetition count and the lcm trick for padding).            *)
(* Part 3: three state machines that enumerate cases for TLC and for the   *)
(*         conformance replay into the implementation:                     *)
(*           Tree*  - operator trees grown operator by operator            *)
(*           Pool*  - histories of public API calls on an object pool      *)
(*                    with a model of MemoizationOperator                  *)
(*           Lemma* - the instances (d, R, k) of the reduction lemmas      *)
(*         plus the cost model used by C16.                                *)
(***************************************************************************)
EXTENDS BLSOps

CONSTANTS LeafMax,    \* leaves are non-empty subsets of 0..LeafMax ...
          LeafCard,   \* ... with at most LeafCard elements
          KMax,       \* repetition counts 0..KMax in trees
          RMax,       \* alignments 1..RMax in trees
          DMax,       \* divisors 1..DMax checked on every tree
          Growth,     \* number of operators stacked on the first leaf
          LemmaD,     \* lemma instances: divisors 1..LemmaD
          PoolLen     \* maximum number of API calls in a pool history

VARIABLES ph, case, out
vars == <<ph, case, out>>

-----------------------------------------------------------------------------
\* What an observer of the public API sees for one object: this is the oracle of the replay.
Answers(t) ==
  LET E == Expand(t) IN
  [min |-> MinOf(E), max |-> MaxOf(E), fixed |-> (MinOf(E) = MaxOf(E)), exp |-> E,
   mods |-> [d \in 1..DMax |-> ModSet(E, d)],
   aligned |-> [d \in 1..DMax |-> (ModSet(E, d) = {0})]]

\* The design check: the analytic answers equal the numeric meaning.
SolverExactFor(t) ==
  LET E == Expand(t) IN
     /\ SMin(t) = MinOf(E)
     /\ SMax(t) = MaxOf(E)
     /\ \A d \in 1..DMax : SMod(t, d) = ModSet(E, d)

-----------------------------------------------------------------------------
(* Part 3a: trees grown operator by operator.  ph = number of nodes chosen  *)

Leaves == { S \in SUBSET (0..LeafMax) : S # {} /\ Cardinality(S) <= LeafCard }
\* a few fixed depth-1 operands for the "other side" of a binary operator
SideExtra == { RepT(Leaf({1, 2}), 2), RngT(Leaf({3}), 2), PadT(Leaf({1, 5}), 4), RngT(Leaf({1, 2}), 3),
               UniT(<<Leaf({0}), Leaf({7})>>) }
\* two different sets that BitLengthSet's approximate equality (min, max, residues mod 32) cannot tell apart
ApproxTwins == { Leaf({0, 64}), Leaf({0, 32, 64}) }
Side == { Leaf(S) : S \in Leaves } \cup SideExtra \cup ApproxTwins

Unary(t)  == { PadT(t, r) : r \in 1..RMax } \cup { RepT(t, k) : k \in 0..KMax } \cup { RngT(t, k) : k \in 0..KMax }
Binary(t) == UNION { { CatT(<<t, s>>), CatT(<<s, t>>), UniT(<<t, s>>), UniT(<<s, t>>) } : s \in Side }
Ternary(t) == { CatT(<<Leaf({1}), t, Leaf({0, 2})>>), UniT(<<Leaf({2}), t, Leaf({5})>>) }

TreeInit == ph = 0 /\ case = Leaf({0}) /\ out = Answers(Leaf({0}))
TreePick == /\ ph = 0
            /\ \E S \in Leaves : case' = Leaf(S) /\ out' = Answers(Leaf(S))
            /\ ph' = 1
TreeGrow == /\ ph >= 1 /\ ph <= Growth
            /\ \E t \in Unary(case) \cup Binary(case) \cup Ternary(case) : case' = t /\ out' = Answers(t)
            /\ ph' = ph + 1
TreeNext == TreePick \/ TreeGrow
TreeSpec == TreeInit /\ [][TreeNext]_vars

SolverExact == SolverExactFor(case)
OutIsMeaning == out.exp = Expand(case) /\ out.min \in out.exp /\ out.max \in out.exp
\* every bit length set is non-empty and consists of naturals
NonEmptyNat == out.exp # {} /\ \A x \in out.exp : x >= 0

-----------------------------------------------------------------------------
(* Part 3b: histories of public API calls on an object pool                 *)
(* case = sequence of calls; the pool is a function of the history.         *)
(* The memo is the model of MemoizationOperator: a set of answered queries  *)
(* with the stored answers; objects are immutable, so a stored answer stays *)
(* the right answer (MemoTransparent), and creating an object never changes *)
(* the meaning of its operands (OperandsUnchanged).                         *)

PoolLeaves == { {0}, {1, 2}, {3, 8} }
Qs == { [q |-> "min"], [q |-> "max"], [q |-> "exp"] } \cup { [q |-> "mod", d |-> d] : d \in {2, 3, 4} }

RECURSIVE PoolOf(_)
PoolOf(h) ==
  IF Len(h) = 0 THEN <<>>
  ELSE LET p == PoolOf(SubSeq(h, 1, Len(h) - 1))
           c == h[Len(h)]
       IN CASE c.f = "leaf" -> Append(p, Leaf(c.s))
            [] c.f = "pad"  -> Append(p, PadT(p[c.i], c.r))
            [] c.f = "rep"  -> Append(p, RepT(p[c.i], c.k))
            [] c.f = "rng"  -> Append(p, RngT(p[c.i], c.k))
            [] c.f = "cat"  -> Append(p, CatT(<<p[c.i], p[c.j]>>))
            [] c.f = "uni"  -> Append(p, UniT(<<p[c.i], p[c.j]>>))
            [] c.f = "q"    -> p

Answer(t, q) == CASE q.q = "min" -> SMin(t) [] q.q = "max" -> SMax(t) [] q.q = "exp" -> Expand(t)
                  [] q.q = "mod" -> SMod(t, q.d)

\* memo after a history: the set of <<object index, query>> pairs that have been asked
RECURSIVE MemoOf(_)
MemoOf(h) == IF Len(h) = 0 THEN {}
             ELSE LET m == MemoOf(SubSeq(h, 1, Len(h) - 1)) c == h[Len(h)]
                  IN IF c.f = "q" THEN m \cup {<<c.i, c.q>>} ELSE m

PoolInit == ph = 0 /\ case = <<>> /\ out = [pool |-> <<>>, ans |-> <<>>]
PoolCalls(n) ==
     { [f |-> "leaf", s |-> S] : S \in PoolLeaves }
  \cup (IF n = 0 THEN {} ELSE
         { [f |-> "pad", i |-> i, r |-> r] : i \in 1..n, r \in {2, 3} }
    \cup { [f |-> "rep", i |-> i, k |-> k] : i \in 1..n, k \in {0, 2, 3} }
    \cup { [f |-> "rng", i |-> i, k |-> k] : i \in 1..n, k \in {2} }
    \cup { [f |-> "cat", i |-> i, j |-> j] : i \in 1..n, j \in 1..n }
    \cup { [f |-> "uni", i |-> i, j |-> j] : i \in 1..n, j \in 1..n }
    \cup { [f |-> "q", i |-> i, q |-> q] : i \in 1..n, q \in Qs })
PoolStep == /\ Len(case) < PoolLen
            /\ \E c \in PoolCalls(Len(PoolOf(case))) :
                 /\ case' = Append(case, c)
                 /\ LET p == PoolOf(case') IN
                      out' = [pool |-> p, ans |-> [i \in DOMAIN p |-> Answers(p[i])]]
            /\ ph' = ph + 1
PoolSpec == PoolInit /\ [][PoolStep]_vars

\* creating a new object never changes the meaning of an older one
OperandsUnchanged ==
  [][\A i \in DOMAIN out.pool : out'.pool[i] = out.pool[i] /\ out'.ans[i] = out.ans[i]]_vars
\* a memoised answer (computed when first asked) equals the answer computed now, whatever was asked in between
MemoTransparent ==
  LET p == PoolOf(case) IN
    \A e \in MemoOf(case) :
       LET t == p[e[1]] q == e[2] IN
         Answer(t, q) = (CASE q.q = "min" -> out.ans[e[1]].min [] q.q = "max" -> out.ans[e[1]].max
                           [] q.q = "exp" -> out.ans[e[1]].exp [] q.q = "mod" -> out.ans[e[1]].mods[q.d])
PoolSolverExact == \A i \in DOMAIN out.pool : SolverExactFor(out.pool[i])

-----------------------------------------------------------------------------
(* Part 3c: lemma instances.  case = [d, R, k]                              *)
(* The step from the bound to all k is definitional:                        *)
(*   KFoldMod(R, k+1, d) = ModSet(PlusSet(KFoldMod(R, k, d), R), d)          *)
(* so KFoldMod(R, 2d, d) = KFoldMod(R, d, d) (PeriodBase) implies           *)
(* KFoldMod(R, k+d, d) = KFoldMod(R, k, d) for every k >= d, hence           *)
(* KFoldMod(R, k, d) = KFoldMod(R, d + (k-d) % d, d) = KFoldMod(R, d + k % d, d). *)

LemmaInit == ph = 0 /\ case = [d |-> 1, R |-> {0}, k |-> 0] /\ out = {0}
LemmaPickD == ph = 0 /\ \E d \in 1..LemmaD : case' = [d |-> d, R |-> {0}, k |-> 0] /\ out' = {0} /\ ph' = 1
LemmaPickR == ph = 1 /\ \E R \in (SUBSET (0..case.d - 1)) \ {{}} :
                 case' = [case EXCEPT !.R = R] /\ out' = {0} /\ ph' = 2
LemmaPickK == ph = 2 /\ \E k \in 0..(3 * case.d + 1) :
                 case' = [case EXCEPT !.k = k] /\ out' = KFoldMod(case.R, k, case.d) /\ ph' = 3
LemmaNext == LemmaPickD \/ LemmaPickR \/ LemmaPickK
LemmaSpec == LemmaInit /\ [][LemmaNext]_vars

Reduction  == ph = 3 => KFoldMod(case.R, case.k, case.d) = KFoldMod(case.R, EquivK(case.k, case.d), case.d)
PeriodBase == ph = 2 => KFoldMod(case.R, 2 * case.d, case.d) = KFoldMod(case.R, case.d, case.d)
RangeReduction ==
  ph = 3 => UNION { KFoldMod(case.R, j, case.d) : j \in 0..case.k }
             = UNION { KFoldMod(case.R, j, case.d) : j \in 0..EquivK(case.k, case.d) }
\* the residues of a k-fold sum depend on the operand only through its residues
ResiduesSuffice ==
  ph = 3 /\ case.k <= 4 => ModSet(KFold({ r + case.d * (r % 2) : r \in case.R }, case.k), case.d)
                             = KFoldMod(case.R, case.k, case.d)
\* padding: residues modulo d of the padded set are determined by the residues modulo lcm(r, d)
PadLcm == ph = 1 => \A r \in 1..LemmaD :
             LET l == Lcm(r, case.d) IN
               \A x \in 0..(l - 1) : \A m \in 1..3 : Pad1(x + m * l, r) % case.d = Pad1(x, r) % case.d
EquivKSame == ph = 3 => EquivK(case.k, case.d) % case.d = case.k % case.d /\ EquivK(case.k, case.d) <= 2 * case.d - 1

-----------------------------------------------------------------------------
\* The enumeration work for a repetition depends on k only through EquivK(k, d) < 2d, and |R| <= d.
CostIndependentOfK ==
  ph = 3 /\ case.k >= 2 * case.d =>
     /\ RepCost(case.R, case.k, case.d) = RepCost(case.R, case.k + case.d, case.d)
     /\ RngCost(case.R, case.k, case.d) = RngCost(case.R, case.k + case.d, case.d)
CostBounded ==
  ph = 3 => /\ Cardinality(case.R) <= case.d
            /\ RepCost(case.R, case.k, case.d) <= MultiChoose(case.d, 2 * case.d - 1)
=============================================================================
