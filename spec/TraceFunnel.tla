---------------------------- MODULE TraceFunnel ----------------------------
(***************************************************************************)
(* Binding B for C13 / C17: the exception conversions recorded at the      *)
(* `except` clauses of parse() and DSDLDefinition.read() (hook event       *)
(* `convert`) while a faulty definition is read.  Each record holds the    *)
(* chain of handlers an exception passed, with what each handler SAW       *)
(* (family of the class, line, path) and what finally escaped.  The chain  *)
(* must be the one the propagation rules produce:                          *)
(*   parse():  an Error without path and line gets the parser's current    *)
(*             line; an Error that already has a path (it comes from a     *)
(*             nested definition) is left alone; ParseError becomes a      *)
(*             syntax error (InvalidDefinition family) at the reported     *)
(*             line; VisitationError becomes InternalError;                *)
(*   read():   an Error without a path gets this definition's path;       *)
(*             anything that is not an Error becomes InternalError with    *)
(*             this definition's path.                                     *)
(* Paths are small integers (0 = none), lines 0 = none.                    *)
(***************************************************************************)
EXTENDS Integers, Sequences, Json, IOUtils, TLC

VARIABLES i, bad

Recs == ndJsonDeserialize(IOEnv.RECORDS)
N == Len(Recs)

\* a step: [layer, fam, line, path, at, own]; the state of the exception after the handler
After(s) ==
  CASE s.layer = "parse" ->
         CASE s.fam \in {"IDE", "Internal"} -> [fam |-> s.fam, line |-> IF s.line = 0 /\ s.path = 0 THEN s.at ELSE s.line, path |-> s.path]
           [] s.fam = "ParseError" -> [fam |-> "IDE", line |-> s.line, path |-> 0]
           [] s.fam = "Visitation" -> [fam |-> "Internal", line |-> s.line, path |-> 0]
           [] OTHER -> [fam |-> s.fam, line |-> s.line, path |-> s.path]
    [] s.layer = "read" ->
         CASE s.fam \in {"IDE", "Internal"} -> [fam |-> s.fam, line |-> s.line, path |-> IF s.path = 0 THEN s.own ELSE s.path]
           [] OTHER -> [fam |-> "Internal", line |-> 0, path |-> s.own]
Seen(s) == [fam |-> s.fam, line |-> s.line, path |-> s.path]

Ok(r) ==
  /\ Len(r.steps) >= 1
  /\ \A j \in 1..(Len(r.steps) - 1) : Seen(r.steps[j + 1]) = After(r.steps[j])      \* each handler sees what the previous one produced
  /\ r.final = After(r.steps[Len(r.steps)])
  \* the property itself, on this execution: what escapes is of the InvalidDefinition family and names a file
  /\ r.final.fam = "IDE" /\ r.final.path # 0

Init == i = 1 /\ bad = {}
Next == /\ i <= N
        /\ i' = i + 1
        /\ bad' = IF Ok(Recs[i]) THEN bad ELSE bad \cup {Recs[i].id}
Spec == Init /\ [][Next]_<<i, bad>>
Verdict == i = N + 1 => PrintT(<<"VERDICT", N, bad>>)
=============================================================================
