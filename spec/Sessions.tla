------------------------------ MODULE Sessions ------------------------------
(***************************************************************************)
(* Reading is a FUNCTION of the files and the arguments of the call        *)
(* (C09: "no matter in which order, through which referrer or how many     *)
(* times it is reached"; C10: deterministic; C17: @print once per          *)
(* evaluated directive; C18: equal values).  A process that calls the      *)
(* front end several times - on namespaces that share directory paths,     *)
(* type names and versions but differ in content - must get, from every    *)
(* call, exactly what that call yields in a fresh process.                 *)
(*                                                                         *)
(* A call is [api, var, dep, loc]: the entry point, the variant of the      *)
(* content of the target namespace, the variant of the LOOKUP namespace    *)
(* (the same target files may be read against another lookup directory),   *)
(* of the namespace (same type names and versions in every variant:        *)
(* another layout, another constant value, another port-ID, a faulty       *)
(* definition, a deprecated one), and where the files are: "same" - one    *)
(* directory whose files are rewritten in place between the calls - or     *)
(* "copy" - a directory of its own per variant; and how the directory      *)
(* arguments are passed (args): fresh objects per call, or list objects    *)
(* that the calls of the history share.                                    *)
(* case = the history of calls; out[n] = what call n must observe: the     *)
(* observation of that call ALONE (the harness obtains Alone(c) from a     *)
(* fresh process per distinct call and compares every step of every        *)
(* history with it).                                                       *)
(***************************************************************************)
EXTENDS Naturals, Sequences, FiniteSets, TLC

CONSTANTS MaxLen, Variants, Locs

VARIABLES ph, case, out
vars == <<ph, case, out>>

Apis == {"namespace", "files", "files-dep-first"}
\* the lookup namespace is of the same variant as the target namespace, or of variant 2 / 3 (another layout / constant)
\* args: "fresh" - every call builds the objects it passes as directory arguments; "shared" - the calls of the history that
\* name the same lookup directory pass ONE list object (an application's module-level LOOKUP_DIRS = [Path(...)]); only
\* distinguishable where the variants live in directories of their own
ArgForms == {"fresh", "shared"}
Calls == { c \in [api : Apis, var : Variants, dep : Variants, loc : Locs, args : ArgForms] :
             /\ c.dep = c.var \/ (c.dep \in {2, 3} /\ c.var \in {1, 4})
             /\ c.args = "shared" => c.loc = "copy" }
\* the observation of a call in a fresh process is identified by the call itself
Alone(c) == c
Init == ph = 0 /\ case = <<>> /\ out = <<>>
Step == /\ ph < MaxLen
        /\ \E c \in Calls :
             /\ case' = Append(case, c)
             /\ out' = Append(out, Alone(c))
        /\ ph' = ph + 1
Spec == Init /\ [][Step]_vars

\* what a call observes depends on that call only - not on what was called before, nor on how often
HistoryIndependent == \A n \in DOMAIN case : out[n] = Alone(case[n])
\* in particular a call repeated later in the history observes the same as the first time
Idempotent == \A m, n \in DOMAIN case : case[m] = case[n] => out[m] = out[n]
=============================================================================
