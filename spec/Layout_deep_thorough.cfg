SPECIFICATION Spec
CONSTANTS Universe = "deep" Growth = 3 Mode = "layout"
INVARIANT SymbolicEqualsDeclared
INVARIANT SolverOnLayout
INVARIANT LengthsAligned
INVARIANT SealedExtentIsLongest
INVARIANT DelimitedFromExtentOnly
INVARIANT OffsetsConsistent
CHECK_DEADLOCK FALSE
