SPECIFICATION Spec
CONSTANTS Triples = TRUE ChainLen = 0
INVARIANT LoopsDecideTheRules
INVARIANT OutIsConsistent
CHECK_DEADLOCK FALSE
