SPECIFICATION Spec
CONSTANT Triples = TRUE
INVARIANT LoopsDecideTheRules
INVARIANT OutIsConsistent
CHECK_DEADLOCK FALSE
