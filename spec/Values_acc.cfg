SPECIFICATION ASpec
CONSTANTS Mode = "acc" AsFoundAlias = FALSE
INVARIANT ProjectionUnchanged
CHECK_DEADLOCK FALSE
