SPECIFICATION ASpec
CONSTANTS Mode = "acc" MaxSteps = 3 AsFoundAlias = FALSE
INVARIANT ProjectionUnchanged
CHECK_DEADLOCK FALSE
