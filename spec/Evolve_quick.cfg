SPECIFICATION Spec
CONSTANT Rich = FALSE
INVARIANT ContainerLayoutStable
INVARIANT CrossRead
CHECK_DEADLOCK FALSE
