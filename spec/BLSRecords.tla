----------------------------- MODULE BLSRecords -----------------------------
(***************************************************************************)
(* Binding B' (call records) for bit length sets: the harness builds       *)
(* operator trees with the public BitLengthSet API, queries `% d`, and     *)
(* writes one ndjson record per call: {id, t, d, obs}.  TLC evaluates the   *)
(* specification's solver SMod on every record and the numeric meaning     *)
(* where it is small enough; the verdict is total: the ids of all records  *)
(* that disagree are printed, the remaining records are still checked.     *)
(* Repetition counts beyond TLC's integers arrive as representatives       *)
(* k' = 2M + (k mod M), M a common multiple of every divisor in play; by   *)
(* the lemmas Reduction / RangeReduction (BitLengthSets.tla) k and k' have *)
(* the same residues.                                                      *)
(***************************************************************************)
EXTENDS BLSOps, Json, IOUtils

VARIABLES i, bad

Recs == ndJsonDeserialize(IOEnv.RECORDS)
N == Len(Recs)

SeqToSet(s) == { s[j] : j \in DOMAIN s }
RECURSIVE FromJ(_)
FromJ(j) ==
  CASE j.op = "leaf" -> Leaf(SeqToSet(j.s))
    [] j.op = "pad"  -> PadT(FromJ(j.c), j.r)
    [] j.op = "rep"  -> RepT(FromJ(j.c), j.k)
    [] j.op = "rng"  -> RngT(FromJ(j.c), j.k)
    [] j.op = "cat"  -> CatT([x \in DOMAIN j.ch |-> FromJ(j.ch[x])])
    [] j.op = "uni"  -> UniT([x \in DOMAIN j.ch |-> FromJ(j.ch[x])])

Ok(r) ==
  LET t == FromJ(r.t) IN
    /\ SMod(t, r.d) = SeqToSet(r.obs)
    /\ r.small => ModSet(Expand(t), r.d) = SeqToSet(r.obs)

Init == i = 1 /\ bad = {}
Next == /\ i <= N
        /\ i' = i + 1
        /\ bad' = IF Ok(Recs[i]) THEN bad ELSE bad \cup {Recs[i].id}
Spec == Init /\ [][Next]_<<i, bad>>

Verdict == i = N + 1 => PrintT(<<"VERDICT", N, bad>>)
=============================================================================
