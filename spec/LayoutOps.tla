----------------------------- MODULE LayoutOps -----------------------------
(***************************************************************************)
(* The Cyphal Specification's data layout rules for DSDL types, as pure    *)
(* operators over type records (no variables).                             *)
(*                                                                         *)
(* Types:                                                                  *)
(*   [k |-> "bool"]                                                        *)
(*   [k |-> "u", n, m]   unsigned integer, n bits, cast mode m ("s"/"t")   *)
(*   [k |-> "i", n]      signed integer (always saturated)                 *)
(*   [k |-> "f", n, m]   float16/32/64                                     *)
(*   [k |-> "void", n]   padding                                           *)
(*   [k |-> "fix", e, c] fixed-length array, [k |-> "var", e, c] variable  *)
(*   [k |-> "st", f]     sealed structure with field types f (a sequence)  *)
(*   [k |-> "un", f]     sealed union with variant types f                 *)
(*   [k |-> "del", inner, x]  delimited (appendable) composite, extent x   *)
(*                                                                         *)
(* BLS is the declarative definition (sets of numbers).  BLSsym builds the *)
(* operator tree exactly as pydsdl does (left-nested pad/concat, repeat,   *)
(* repeat_range), to be expanded with BLSOps!Expand.                       *)
(***************************************************************************)
EXTENDS BLSOps

IsComposite(t) == t.k \in {"st", "un", "del"}
IsPrimitive(t) == t.k \in {"bool", "u", "i", "f", "void"}

\* number of bits needed to write x >= 0 in binary (0 for 0)
RECURSIVE BitLen(_)
BitLen(x) == IF x = 0 THEN 0 ELSE 1 + BitLen(x \div 2)
\* least of 8/16/32/64 that has at least b bits
LeastStd(b) == IF b <= 8 THEN 8 ELSE IF b <= 16 THEN 16 ELSE IF b <= 32 THEN 32 ELSE 64
PrefixW(c) == LeastStd(BitLen(c))          \* implicit array length prefix for capacity c
TagW(nv)   == LeastStd(BitLen(nv - 1))     \* union tag for nv variants (largest index nv - 1)
HeaderW    == 32                            \* delimiter header

RECURSIVE Align(_)
Align(t) == CASE IsPrimitive(t) -> 1
              [] t.k \in {"fix", "var"} -> Align(t.e)
              [] OTHER -> 8

RECURSIVE BLS(_)
\* structure: fields in order, each preceded by padding to its alignment (no final padding)
RECURSIVE StructAgg(_, _)
StructAgg(f, n) ==      \* lengths of the first n fields
  IF n = 0 THEN {0}
  ELSE PlusSet(PadSet(StructAgg(f, n - 1), Align(f[n])), BLS(f[n]))
BLS(t) ==
  CASE t.k = "bool" -> {1}
    [] t.k \in {"u", "i", "f", "void"} -> {t.n}
    [] t.k = "fix" -> KFold(BLS(t.e), t.c)
    [] t.k = "var" -> PlusSet({PrefixW(t.c)}, KFoldRange(BLS(t.e), t.c))
    [] t.k = "st"  -> PadSet(StructAgg(t.f, Len(t.f)), 8)
    [] t.k = "un"  -> PadSet(PlusSet({TagW(Len(t.f))}, UNION { BLS(t.f[j]) : j \in DOMAIN t.f }), 8)
    [] t.k = "del" -> PlusSet({HeaderW}, { 8 * j : j \in 0..(t.x \div 8) })

Extent(t) == IF t.k = "del" THEN t.x ELSE MaxOf(BLS(t))

\* operator tree as the implementation builds it
RECURSIVE BLSsym(_)
RECURSIVE StructSym(_, _)
StructSym(f, n) ==
  IF n = 0 THEN Leaf({0})
  ELSE IF n = 1 THEN BLSsym(f[1])
  ELSE CatT(<<PadT(StructSym(f, n - 1), Align(f[n])), BLSsym(f[n])>>)
BLSsym(t) ==
  CASE t.k = "bool" -> Leaf({1})
    [] t.k \in {"u", "i", "f", "void"} -> Leaf({t.n})
    [] t.k = "fix" -> RepT(BLSsym(t.e), t.c)
    [] t.k = "var" -> CatT(<<Leaf({PrefixW(t.c)}), RngT(BLSsym(t.e), t.c)>>)
    [] t.k = "st"  -> PadT(StructSym(t.f, Len(t.f)), 8)
    [] t.k = "un"  -> PadT(CatT(<<Leaf({TagW(Len(t.f))}), UniT([j \in DOMAIN t.f |-> BLSsym(t.f[j])])>>), 8)
    [] t.k = "del" -> CatT(<<Leaf({HeaderW}), RngT(Leaf({8}), t.x \div 8)>>)

(* Field offsets (C08), as the iterators compute them: the base is padded to the type's alignment, every field  *)
(* to its own alignment; union variants share base + tag; a delimited type adds its header.                      *)
RECURSIVE StructOffs(_, _, _)
StructOffs(f, n, B) ==   \* offset set of field n (1-based) given the padded base B
  IF n = 1 THEN PadSet(B, Align(f[1]))
  ELSE PadSet(PlusSet(StructOffs(f, n - 1, B), BLS(f[n - 1])), Align(f[n]))
RECURSIVE Offsets(_, _)
Offsets(t, B) ==
  CASE t.k = "st"  -> [j \in DOMAIN t.f |-> StructOffs(t.f, j, PadSet(B, 8))]
    [] t.k = "un"  -> [j \in DOMAIN t.f |-> PlusSet(PadSet(B, 8), {TagW(Len(t.f))})]
    [] t.k = "del" -> Offsets(t.inner, PlusSet(B, {HeaderW}))
\* element offsets of a fixed-length array
ElemOffsets(t, B) == [j \in 1..t.c |-> PlusSet(PadSet(B, Align(t)), KFold(BLS(t.e), j - 1))]

\* `_offset_` evaluated after the first n attributes of a structure (before any padding for the next field) and
\* after the last variant of a union
OffsetAfter(t, n) ==
  CASE t.k = "st" -> StructAgg(t.f, n)
    [] t.k = "un" -> IF Len(t.f) = 1 THEN BLS(t.f[1])     \* aggregate of a single variant has no tag
                     ELSE PlusSet({TagW(Len(t.f))}, UNION { BLS(t.f[j]) : j \in DOMAIN t.f })

\* The "in particular" clauses of C02
LenMultipleOfAlign(t)   == \A x \in BLS(t) : x % Align(t) = 0
CompositeByteAligned(t) == IsComposite(t) => Align(t) >= 8 /\ \A x \in BLS(t) : x % 8 = 0
PrefixLeast(c) == /\ PrefixW(c) \in {8, 16, 32, 64}
                  /\ BitLen(c) <= PrefixW(c)
                  /\ \A w \in {8, 16, 32, 64} : w < PrefixW(c) => BitLen(c) > w
=============================================================================
