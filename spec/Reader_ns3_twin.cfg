SPECIFICATION Spec
CONSTANTS SelfNamed = FALSE Lean = TRUE DirSet = {1, 2, 5} MaxDefs = 3 Rich = FALSE Entry = "namespace" Bodies = {"ok"} Dups = FALSE AsFoundTwoObjects = FALSE AsFoundPrintPath = FALSE
INVARIANT ResolvesExactly
INVARIANT BadReferenceFails
INVARIANT AcyclicWhenOk
INVARIANT DirectIsTargets
INVARIANT TransitiveIsClosureMinusTargets
INVARIANT NoLoadOutsideClosure
INVARIANT LoadedOncePerFile
INVARIANT OutsideIrrelevant
INVARIANT StackBounded
INVARIANT LogBalanced
INVARIANT LogInsideClosure
INVARIANT PrintOnce
INVARIANT PrintOwnPath
INVARIANT ErrPathIsFaultFile
CHECK_DEADLOCK FALSE
