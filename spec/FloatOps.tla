------------------------------ MODULE FloatOps ------------------------------
(***************************************************************************)
(* IEEE 754 binary interchange formats as the wire encoding of DSDL float  *)
(* fields (C06): binary16 = (EB 5, MB 10), binary32 = (EB 8, MB 23).       *)
(* Everything is exact integer arithmetic:                                 *)
(*   a finite value is  [k |-> "fin", s, m, e]  = (-1)^s * m * 2^e         *)
(*   (m >= 0, any e), infinities [k |-> "inf", s], NaN [k |-> "nan"];      *)
(*   a bit pattern is [s, ef, fr] (sign, exponent field, fraction field).  *)
(* Decode : pattern -> value          (deserialization)                    *)
(* RoundFin : finite value -> pattern (round to nearest, ties to even;     *)
(*            overflow gives infinity)                                     *)
(* Encode(mode, x): the cast modes of the statement - saturated clamps     *)
(*            finite out-of-range values to the largest finite value,      *)
(*            truncated lets them overflow to infinity; infinities and     *)
(*            NaN pass in both.                                            *)
(* Magnitudes: m < 2^27 and shifts <= 30 keep TLC's 32-bit integers safe   *)
(* (binary64 needs a 53-bit significand and is not modelled: a Python      *)
(* float *is* a binary64 pattern, the conversion is the identity).         *)
(***************************************************************************)
EXTENDS Integers, TLC

RECURSIVE Pow2(_), BitLen(_)
Pow2(n) == IF n <= 0 THEN 1 ELSE 2 * Pow2(n - 1)
BitLen(m) == IF m = 0 THEN 0 ELSE 1 + BitLen(m \div 2)

Bias(EB) == Pow2(EB - 1) - 1
QMin(EB, MB) == 1 - Bias(EB) - MB        \* exponent of the unit in the last place of subnormals and of the first binade
MaxEF(EB) == Pow2(EB) - 1                \* exponent field of infinities and NaN
QMax(EB, MB) == QMin(EB, MB) + MaxEF(EB) - 2          \* exponent of the ulp of the last binade
MaxM(MB) == Pow2(MB + 1) - 1             \* significand of the largest finite value

Fin(s, m, e) == [k |-> "fin", s |-> s, m |-> m, e |-> e]
Inf(s) == [k |-> "inf", s |-> s]
NaN == [k |-> "nan"]
Pat(s, ef, fr) == [s |-> s, ef |-> ef, fr |-> fr]

Decode(EB, MB, p) ==
  IF p.ef = MaxEF(EB) THEN (IF p.fr = 0 THEN Inf(p.s) ELSE NaN)
  ELSE IF p.ef = 0 THEN Fin(p.s, p.fr, QMin(EB, MB))                                  \* zero and subnormals
  ELSE Fin(p.s, Pow2(MB) + p.fr, QMin(EB, MB) + p.ef - 1)                              \* normals: implicit leading one

\* round to nearest, ties to even
RoundFin(EB, MB, x) ==
  IF x.m = 0 THEN Pat(x.s, 0, 0) ELSE
  LET qmin == QMin(EB, MB)
      E == x.e + BitLen(x.m) - 1                                  \* 2^E <= |x| < 2^(E+1)
      q == IF E - MB > qmin THEN E - MB ELSE qmin                 \* exponent of the ulp at |x|
      d == q - x.e                                                \* bits of x below the ulp
      M0 == IF d <= 0 THEN x.m * Pow2(0 - d) ELSE IF d > 30 THEN 0 ELSE x.m \div Pow2(d)
      rem == IF d <= 0 \/ d > 30 THEN 0 ELSE x.m % Pow2(d)
      half == IF d <= 0 \/ d > 30 THEN 1 ELSE Pow2(d - 1)
      up == d > 0 /\ d <= 30 /\ (rem > half \/ (rem = half /\ M0 % 2 = 1))
      M == IF up THEN M0 + 1 ELSE M0
      carry == M = Pow2(MB + 1)                                   \* rounded up into the next binade
      M2 == IF carry THEN Pow2(MB) ELSE M
      q2 == IF carry THEN q + 1 ELSE q
      ef == IF M2 < Pow2(MB) THEN 0 ELSE q2 - qmin + 1
      fr == IF M2 < Pow2(MB) THEN M2 ELSE M2 - Pow2(MB)
  IN IF ef >= MaxEF(EB) THEN Pat(x.s, MaxEF(EB), 0) ELSE Pat(x.s, ef, fr)

\* |x| > largest finite value
Exceeds(EB, MB, x) ==
  x.m # 0 /\
  LET E == x.e + BitLen(x.m) - 1
      qmax == QMax(EB, MB)
      d == qmax - x.e
  IN IF E > qmax + MB THEN TRUE
     ELSE IF E < qmax + MB THEN FALSE
     ELSE d > 0 /\ d <= 30 /\ x.m \div Pow2(d) = MaxM(MB) /\ x.m % Pow2(d) # 0

MaxPat(EB, MB, s) == Pat(s, MaxEF(EB) - 1, Pow2(MB) - 1)
Encode(EB, MB, mode, x) ==
  CASE x.k = "nan" -> Pat(0, MaxEF(EB), Pow2(MB - 1))                 \* some NaN (only the class is specified)
    [] x.k = "inf" -> Pat(x.s, MaxEF(EB), 0)
    [] OTHER -> IF mode = "s" /\ Exceeds(EB, MB, x) THEN MaxPat(EB, MB, x.s) ELSE RoundFin(EB, MB, x)
IsNaNPat(EB, p) == p.ef = MaxEF(EB) /\ p.fr # 0

\* exact comparison of two non-negative magnitudes m1 * 2^e1 and m2 * 2^e2 whose exponents differ by at most 8:
\* sign of the difference
CmpMag(m1, e1, m2, e2) == IF e1 >= e2 THEN m1 * Pow2(e1 - e2) - m2 ELSE m1 - m2 * Pow2(e2 - e1)
\* |x - a| - |x - b| for magnitudes (all non-negative, exponents within 8 of each other), scaled to the least exponent
AbsI(v) == IF v < 0 THEN 0 - v ELSE v
Least3(a, b, c) == IF a <= b /\ a <= c THEN a ELSE IF b <= c THEN b ELSE c
DistCmp(xm, xe, am, ae, bm, be) ==
  LET e0 == Least3(xe, ae, be)
      X == xm * Pow2(xe - e0)  A == am * Pow2(ae - e0)  B == bm * Pow2(be - e0)
  IN AbsI(X - A) - AbsI(X - B)
=============================================================================
