-------------------------------- MODULE Paths --------------------------------
(***************************************************************************)
(* C15: a type's name, version and port-ID are those encoded in its file   *)
(* path relative to its root namespace directory.                          *)
(*                                                                         *)
(* Abstract file system: the workspace /ws/proj contains the root          *)
(* namespace directories "animals" and "plants"; the definition file is    *)
(* /ws/proj/animals/<ns dirs>/[port.]Name.major.minor.dsdl.                *)
(* A call designates the target (absolute, relative to the working         *)
(* directory, or relative to the directory that contains the root), the    *)
(* root (absolute path, path relative to the working directory, bare       *)
(* root-namespace name, or not at all) and possibly a second root.         *)
(* Identity is the declarative function of the property; Promised marks    *)
(* the combinations the read_files documentation presents as valid calls.  *)
(***************************************************************************)
EXTENDS Naturals, Sequences, FiniteSets, TLC

CONSTANTS Names, Vers, SubjectPorts, ServicePorts,     \* the shapes of the file name (besides "no port")
          AsFoundJoin,      \* TRUE reproduces F8a: a relative target is always joined to the parent of the inferred root
          AsFoundOrder      \* TRUE reproduces F8b: the ancestor walk is tried before the bare root names

VersQuick == { <<0, 1>>, <<1, 0>>, <<255, 255>> }
VersThorough == VersQuick \cup { <<0, 255>>, <<255, 0>>, <<1, 1>> }
VARIABLES ph, case, out
vars == <<ph, case, out>>

Base == <<"ws", "proj">>
RootDir == Base \o <<"animals">>
\* depth 3 stands for a nested namespace directory that is named like the root itself
NsDirs(depth) == CASE depth = 0 -> <<>> [] depth = 1 -> <<"felines">> [] depth = 2 -> <<"felines", "big">>
                   [] depth = 3 -> <<"felines", "animals">>
FileDir(c) == RootDir \o NsDirs(c.depth)
Cwds == { <<>>, <<"ws">>, Base, RootDir, <<"other">> }
IsPrefix(p, q) == Len(p) <= Len(q) /\ SubSeq(q, 1, Len(p)) = p

\* the identity encoded in the path, relative to a root directory r (a prefix of the file's directory)
Identity(c, r) ==
  [components |-> SubSeq(FileDir(c), Len(r), Len(FileDir(c))) \o <<c.name>>,     \* root namespace name first
   major |-> c.ver[1], minor |-> c.ver[2], port |-> c.port, root |-> r]

\* the request and the response part of a service are types of their own that live in the same file: the service's name
\* extended by one component, the service's version, the same back pointers, and no port-ID (the port belongs to the service)
Parts(c, r) ==
  IF c.kind = "service"
  THEN << [Identity(c, r) EXCEPT !.components = @ \o <<"Request">>, !.port = 0 - 1],
          [Identity(c, r) EXCEPT !.components = @ \o <<"Response">>, !.port = 0 - 1] >>
  ELSE << >>

\* which directory plays the root
\* - roots given: the given root directory
\* - no roots given: by definition the first component of the (relative) target
\* - a bare root-namespace name with a working-directory-relative target: the first directory of that name along the
\*   target path AS SPELLED (the only thing the two arguments can denote together)
\* the bare names among the roots: the root's own, and (extra = name-before / name-after) the name of the nested namespace
\* "felines" listed as one more bare name before / after it - the roots then are a SET of names, their order means nothing
NamesOf(c) == {"animals"} \cup (IF c.extra \in {"name-before", "name-after"} THEN {"felines"} ELSE {})
FirstNamed(c) ==    \* index in FileDir(c) of the first component carrying one of the names after the working directory, 0 if none
  LET I == { i \in (Len(c.cwd) + 1)..Len(FileDir(c)) : FileDir(c)[i] \in NamesOf(c) } IN
    IF I = {} THEN 0 ELSE CHOOSE i \in I : \A j \in I : i <= j
ExpectedRoot(c) ==
  IF c.rdes = "none"
  THEN (IF c.tsp = "cwdrel" THEN SubSeq(FileDir(c), 1, Len(c.cwd) + 1) ELSE RootDir)
  ELSE IF c.rdes = "name" /\ c.tsp = "cwdrel" THEN SubSeq(FileDir(c), 1, FirstNamed(c))
  ELSE RootDir

Spellable(c) ==
  /\ c.tsp = "cwdrel" => IsPrefix(c.cwd, FileDir(c))                 \* the file lies under the working directory
  /\ c.rdes = "rel" => IsPrefix(c.cwd, RootDir) /\ c.cwd # RootDir   \* a relative root path needs at least one component
  /\ c.rdes = "none" => c.tsp = "cwdrel" /\ Len(c.cwd) < Len(FileDir(c))
  /\ c.extra # "none" => c.rdes # "none"
  /\ c.extra \in {"name-before", "name-after"} => c.rdes = "name" /\ c.cwd # RootDir   \* (there "felines" is also a relative PATH to a nested directory)
  /\ (c.rdes = "name" /\ c.tsp = "cwdrel") => FirstNamed(c) > 0       \* otherwise the name designates nothing
  /\ c.api = "namespace" => c.tsp = "abs" /\ c.rdes \in {"abs", "rel"} /\ c.extra = "none"

\* the working directory is a proper ancestor of the root: a cwd-relative target then leads through the root directory
CwdAboveRoot(c) == IsPrefix(c.cwd, RootDir) /\ c.cwd # RootDir
Promised(c) ==
  \/ c.api = "namespace"
  \/ c.tsp = "abs" /\ c.rdes \in {"abs", "name"}
  \/ c.tsp = "rootrel" /\ c.rdes \in {"abs", "rel"}
  \/ c.tsp = "cwdrel" /\ CwdAboveRoot(c) /\ c.rdes \in {"name", "rel"}
  \/ c.tsp = "cwdrel" /\ c.rdes = "none" /\ Len(c.cwd) < Len(FileDir(c))


-----------------------------------------------------------------------------
(* The root inference of DSDLDefinition.from_first_in / read_files, transcribed strategy by strategy over the abstract  *)
(* file system (implementation-shaped; the declarative contract above is what it is checked against).               *)
PlantsDir == Base \o <<"plants">>
\* every directory of the abstract file system
DirsFS(c) == { SubSeq(FileDir(c), 1, n) : n \in 0..Len(FileDir(c)) } \cup { SubSeq(PlantsDir, 1, n) : n \in 0..Len(PlantsDir) }
             \cup { PlantsDir \o <<"trees">>, <<"other">> }
FileName == <<"FILE">>                                    \* the file's own path component (its text is irrelevant here)
FilePath(c) == FileDir(c) \o FileName
ExistsFS(c, p) == p \in DirsFS(c) \/ p = FilePath(c)
Sp(abs, parts) == [abs |-> abs, parts |-> parts]           \* a spelled path
Res(c, p) == IF p.abs THEN p.parts ELSE c.cwd \o p.parts
Parent(parts) == SubSeq(parts, 1, Len(parts) - 1)
\* how the call spells the target and the roots
TargetSp(c) == CASE c.tsp = "abs" -> Sp(TRUE, FilePath(c))
                 [] c.tsp = "cwdrel" -> Sp(FALSE, SubSeq(FilePath(c), Len(c.cwd) + 1, Len(FilePath(c))))
                 [] c.tsp = "rootrel" -> Sp(FALSE, SubSeq(FilePath(c), Len(RootDir), Len(FilePath(c))))
MainRootSp(c) == CASE c.rdes = "abs" -> <<Sp(TRUE, RootDir)>>
                   [] c.rdes = "rel" -> <<Sp(FALSE, SubSeq(RootDir, Len(c.cwd) + 1, Len(RootDir)))>>
                   [] c.rdes = "name" -> <<Sp(FALSE, <<"animals">>)>>
                   [] c.rdes = "none" -> <<>>
RootsSp(c) == CASE c.extra = "before" -> <<Sp(TRUE, PlantsDir)>> \o MainRootSp(c)
                [] c.extra = "after" -> MainRootSp(c) \o <<Sp(TRUE, PlantsDir)>>
                [] c.extra = "name-before" -> <<Sp(FALSE, <<"felines">>)>> \o MainRootSp(c)
                [] c.extra = "name-after" -> MainRootSp(c) \o <<Sp(FALSE, <<"felines">>)>>
                [] OTHER -> MainRootSp(c)
SpPrefix(r, t) == r.abs = t.abs /\ IsPrefix(r.parts, t.parts) /\ Len(r.parts) < Len(t.parts)

NoRoot == [found |-> FALSE]
Got(r) == [found |-> TRUE, root |-> r]
FirstIx(S) == CHOOSE i \in S : \A j \in S : i <= j
\* inference 1: no roots given
Inf1(c, t) == IF t.abs THEN NoRoot
              ELSE IF ExistsFS(c, c.cwd \o <<t.parts[1]>>) THEN Got(Sp(FALSE, <<t.parts[1]>>)) ELSE NoRoot
\* inference 2: the target as spelled lies under a root as spelled (the first such root wins)
Inf2(c, t, rs) == LET I == { i \in DOMAIN rs : SpPrefix(rs[i], t) } IN IF I = {} THEN NoRoot ELSE Got(rs[FirstIx(I)])
\* bare root-namespace names: the first directory of the target path carrying such a name
InfNames(c, t, rs) ==
  LET names == { rs[i].parts[1] : i \in { j \in DOMAIN rs : ~rs[j].abs /\ Len(rs[j].parts) = 1 } }
      I == { i \in 1..(Len(t.parts) - 1) : t.parts[i] \in names }
  IN IF I = {} THEN NoRoot ELSE Got(Sp(t.abs, SubSeq(t.parts, 1, FirstIx(I))))
\* ancestor walk: a relative target whose first component names a root or an ancestor of a root under which the file exists
InfWalk(c, t, rs) ==
  IF t.abs THEN NoRoot ELSE
  LET Cands == { <<i, n>> \in (DOMAIN rs) \X (1..5) :
                   /\ n <= Len(rs[i].parts)
                   /\ rs[i].parts[n] = t.parts[1]
                   /\ ExistsFS(c, Res(c, Sp(rs[i].abs, SubSeq(rs[i].parts, 1, n - 1))) \o t.parts) }
  IN IF Cands = {} THEN NoRoot
     ELSE LET i == FirstIx({ x[1] : x \in Cands })
              n == CHOOSE m \in { x[2] : x \in { y \in Cands : y[1] = i } } : \A k \in { x[2] : x \in { y \in Cands : y[1] = i } } : m >= k
          IN Got(Sp(rs[i].abs, SubSeq(rs[i].parts, 1, n)))          \* walking upwards from the root: the deepest match first
Infer(c) ==
  LET t == TargetSp(c) rs == RootsSp(c) IN
  IF Len(rs) = 0 THEN Inf1(c, t)
  ELSE IF Inf2(c, t, rs).found THEN Inf2(c, t, rs)
  ELSE IF AsFoundOrder
       THEN (IF InfWalk(c, t, rs).found THEN InfWalk(c, t, rs) ELSE InfNames(c, t, rs))
       ELSE (IF InfNames(c, t, rs).found THEN InfNames(c, t, rs) ELSE InfWalk(c, t, rs))

\* from_first_in + the constructor + the nested-root validation of read_files: "ide" or the resolved root directory
Outcome(c) ==
  LET t == TargetSp(c) inf == Infer(c) IN
  IF ~inf.found THEN [k |-> "ide"]
  ELSE
    LET r == inf.root
        file == IF t.abs THEN t.parts
                ELSE IF ~AsFoundJoin /\ ~r.abs /\ IsPrefix(r.parts, t.parts) THEN c.cwd \o t.parts       \* relative to the working directory
                ELSE Parent(Res(c, r)) \o t.parts                                                        \* relative to the root's parent
        rootdir == Res(c, r)
        given == { Res(c, RootsSp(c)[i]) : i \in { j \in DOMAIN RootsSp(c) : ExistsFS(c, Res(c, RootsSp(c)[j])) } }
        all == given \cup {rootdir}
    IN IF file # FilePath(c) THEN [k |-> "ide"]                                  \* no such file
       ELSE IF ~IsPrefix(rootdir, FileDir(c)) THEN [k |-> "ide"]
       ELSE IF \E a, b \in all : a # b /\ IsPrefix(a, b) THEN [k |-> "ide"]    \* nested root namespaces
       ELSE [k |-> "ok", root |-> rootdir]
\* the contract, on the model of the code
NeverWrongIdentity == ph = 1 /\ case.api = "files" /\ Outcome(case).k = "ok" => Outcome(case).root = ExpectedRoot(case)
PromisedSucceeds == ph = 1 /\ case.api = "files" /\ Promised(case) => Outcome(case).k = "ok"

Init == ph = 0 /\ case = [depth |-> 0] /\ out = 0
Pick ==
  /\ ph = 0
  /\ \E depth \in 0..3, port \in {0 - 1} \cup SubjectPorts \cup ServicePorts, ver \in Vers, name \in Names,
        cwd \in Cwds, tsp \in {"abs", "cwdrel", "rootrel"}, rdes \in {"abs", "rel", "name", "none"},
        extra \in {"none", "before", "after", "name-before", "name-after"}, api \in {"files", "namespace"}, kind \in {"message", "service"} :
       LET c == [depth |-> depth, port |-> port, ver |-> ver, name |-> name, cwd |-> cwd, tsp |-> tsp, rdes |-> rdes,
                 extra |-> extra, api |-> api, kind |-> kind] IN
         /\ Spellable(c)
         /\ (kind = "service" => port \notin SubjectPorts \ ServicePorts) /\ (kind = "message" => port \notin ServicePorts \ SubjectPorts)  \* service-IDs end at 511
         /\ case' = c
         /\ out' = [identity |-> Identity(c, ExpectedRoot(c)), promised |-> Promised(c), parts |-> Parts(c, ExpectedRoot(c)),
                    model |-> IF api = "files" THEN Outcome(c).k ELSE "ok"]
  /\ ph' = 1
Spec == Init /\ [][Pick]_vars

\* sanity of the declarative function
IdentityShape ==
  ph = 1 => /\ Len(out.identity.components) >= 2
            /\ out.identity.components[Len(out.identity.components)] = case.name
            /\ out.identity.components[1] = out.identity.root[Len(out.identity.root)]
PartsShape ==
  ph = 1 => /\ Len(out.parts) = (IF case.kind = "service" THEN 2 ELSE 0)
            /\ \A i \in 1..Len(out.parts) :
                 /\ SubSeq(out.parts[i].components, 1, Len(out.identity.components)) = out.identity.components
                 /\ Len(out.parts[i].components) = Len(out.identity.components) + 1
                 /\ out.parts[i].port = 0 - 1 /\ out.parts[i].root = out.identity.root
                 /\ out.parts[i].major = out.identity.major /\ out.parts[i].minor = out.identity.minor
            /\ Len(out.parts) = 2 => out.parts[1].components # out.parts[2].components
\* the identity does not depend on how target and root are designated (for a fixed root directory)
DesignationIrrelevant ==
  ph = 1 /\ case.rdes # "none" /\ ExpectedRoot(case) = RootDir =>
    out.identity = Identity([case EXCEPT !.tsp = "abs", !.rdes = "abs", !.cwd = <<>>, !.extra = "none"], RootDir)
=============================================================================
