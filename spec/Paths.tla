-------------------------------- MODULE Paths --------------------------------
(***************************************************************************)
(* C15: a type's name, version and port-ID are those encoded in its file   *)
(* path relative to its root namespace directory.                          *)
(*                                                                         *)
(* Abstract file system: the workspace /ws/proj contains the root          *)
(* namespace directories "animals" and "plants"; the definition file is    *)
(* /ws/proj/animals/<ns dirs>/[port.]Name.major.minor.dsdl.                *)
(* A call designates the target (absolute, relative to the working         *)
(* directory, or relative to the directory that contains the root), the    *)
(* root (absolute path, path relative to the working directory, bare       *)
(* root-namespace name, or not at all) and possibly a second root.         *)
(* Identity is the declarative function of the property; Promised marks    *)
(* the combinations the read_files documentation presents as valid calls.  *)
(***************************************************************************)
EXTENDS Naturals, Sequences, FiniteSets, TLC

VARIABLES ph, case, out
vars == <<ph, case, out>>

Base == <<"ws", "proj">>
RootDir == Base \o <<"animals">>
\* depth 3 stands for a nested namespace directory that is named like the root itself
NsDirs(depth) == CASE depth = 0 -> <<>> [] depth = 1 -> <<"felines">> [] depth = 2 -> <<"felines", "big">>
                   [] depth = 3 -> <<"felines", "animals">>
FileDir(c) == RootDir \o NsDirs(c.depth)
Cwds == { <<>>, <<"ws">>, Base, RootDir, <<"other">> }
IsPrefix(p, q) == Len(p) <= Len(q) /\ SubSeq(q, 1, Len(p)) = p

\* the identity encoded in the path, relative to a root directory r (a prefix of the file's directory)
Identity(c, r) ==
  [components |-> SubSeq(FileDir(c), Len(r), Len(FileDir(c))) \o <<c.name>>,     \* root namespace name first
   major |-> c.ver[1], minor |-> c.ver[2], port |-> c.port, root |-> r]

\* which directory plays the root
\* - roots given: the given root directory
\* - no roots given: by definition the first component of the (relative) target
\* - a bare root-namespace name with a working-directory-relative target: the first directory of that name along the
\*   target path AS SPELLED (the only thing the two arguments can denote together)
FirstNamed(c) ==    \* index in FileDir(c) of the first component named "animals" after the working directory, 0 if none
  LET I == { i \in (Len(c.cwd) + 1)..Len(FileDir(c)) : FileDir(c)[i] = "animals" } IN
    IF I = {} THEN 0 ELSE CHOOSE i \in I : \A j \in I : i <= j
ExpectedRoot(c) ==
  IF c.rdes = "none"
  THEN (IF c.tsp = "cwdrel" THEN SubSeq(FileDir(c), 1, Len(c.cwd) + 1) ELSE RootDir)
  ELSE IF c.rdes = "name" /\ c.tsp = "cwdrel" THEN SubSeq(FileDir(c), 1, FirstNamed(c))
  ELSE RootDir

Spellable(c) ==
  /\ c.tsp = "cwdrel" => IsPrefix(c.cwd, FileDir(c))                 \* the file lies under the working directory
  /\ c.rdes = "rel" => IsPrefix(c.cwd, RootDir) /\ c.cwd # RootDir   \* a relative root path needs at least one component
  /\ c.rdes = "none" => c.tsp = "cwdrel" /\ Len(c.cwd) < Len(FileDir(c))
  /\ c.extra # "none" => c.rdes # "none"
  /\ (c.rdes = "name" /\ c.tsp = "cwdrel") => FirstNamed(c) > 0       \* otherwise the name designates nothing
  /\ c.api = "namespace" => c.tsp = "abs" /\ c.rdes \in {"abs", "rel"} /\ c.extra = "none"

\* the working directory is a proper ancestor of the root: a cwd-relative target then leads through the root directory
CwdAboveRoot(c) == IsPrefix(c.cwd, RootDir) /\ c.cwd # RootDir
Promised(c) ==
  \/ c.api = "namespace"
  \/ c.tsp = "abs" /\ c.rdes \in {"abs", "name"}
  \/ c.tsp = "rootrel" /\ c.rdes \in {"abs", "rel"}
  \/ c.tsp = "cwdrel" /\ CwdAboveRoot(c) /\ c.rdes \in {"name", "rel"}
  \/ c.tsp = "cwdrel" /\ c.rdes = "none" /\ Len(c.cwd) < Len(FileDir(c))

Init == ph = 0 /\ case = [depth |-> 0] /\ out = 0
Pick ==
  /\ ph = 0
  /\ \E depth \in 0..3, port \in {0 - 1, 0, 7509}, ver \in { <<0, 1>>, <<1, 0>>, <<255, 255>> }, name \in {"T", "Tabby_2"},
        cwd \in Cwds, tsp \in {"abs", "cwdrel", "rootrel"}, rdes \in {"abs", "rel", "name", "none"},
        extra \in {"none", "before", "after"}, api \in {"files", "namespace"} :
       LET c == [depth |-> depth, port |-> port, ver |-> ver, name |-> name, cwd |-> cwd, tsp |-> tsp, rdes |-> rdes,
                 extra |-> extra, api |-> api] IN
         /\ Spellable(c)
         /\ case' = c
         /\ out' = [identity |-> Identity(c, ExpectedRoot(c)), promised |-> Promised(c)]
  /\ ph' = 1
Spec == Init /\ [][Pick]_vars

\* sanity of the declarative function
IdentityShape ==
  ph = 1 => /\ Len(out.identity.components) >= 2
            /\ out.identity.components[Len(out.identity.components)] = case.name
            /\ out.identity.components[1] = out.identity.root[Len(out.identity.root)]
\* the identity does not depend on how target and root are designated (for a fixed root directory)
DesignationIrrelevant ==
  ph = 1 /\ case.rdes # "none" /\ ExpectedRoot(case) = RootDir =>
    out.identity = Identity([case EXCEPT !.tsp = "abs", !.rdes = "abs", !.cwd = <<>>, !.extra = "none"], RootDir)
=============================================================================
