SPECIFICATION Spec
CONSTANTS Mode = "grid" Deep = FALSE
INVARIANT WellFormedValue
INVARIANT RatNormal
CHECK_DEADLOCK FALSE
