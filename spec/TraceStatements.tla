-------------------------- MODULE TraceStatements --------------------------
(***************************************************************************)
(* Binding B for C03 / C17 over executions that were NOT generated from    *)
(* the specification: the parser / builder steps recorded (hooks H1, H2)   *)
(* while the repository's own tests read their definitions.  One event is  *)
(* consumed per state.  Reads nest (a dependency is read in the middle of  *)
(* its referrer's statement), so the machine keeps one frame per open      *)
(* read; a frame is the state of Statements.tla's machine that the events  *)
(* let us observe:                                                         *)
(*   pend  line of the queued (not yet committed) attribute, 0 if none     *)
(*   pk    its kind ("field" / "pad" count as fields, "const" as constant) *)
(*   sec   current section (1 = message / request, 2 = response)           *)
(*   nf, nc  attributes committed so far, per section                      *)
(*   hdr   the next comment flush is a header comment                      *)
(*   line  the parser's current line                                       *)
(*   want  a builder commit step is due (the parser has just flushed)      *)
(* Checked on every step of every recorded read:                           *)
(*   - every statement is preceded by a flush, so nothing is pending when  *)
(*     a statement is applied, and it is applied on the current line;      *)
(*   - an attribute is committed exactly once, by the parser flush that    *)
(*     names its line, into the section it was written in;                 *)
(*   - the line counter only grows; the marker opens section 2 once;       *)
(*   - at finalization nothing is pending and the schema builders hold     *)
(*     exactly the attributes that were committed (none lost, none twice); *)
(*   - a read that ends successfully was finalized.                        *)
(* Events outside any read (unit tests driving the parser directly) are    *)
(* not judged.                                                             *)
(***************************************************************************)
EXTENDS Integers, Sequences, FiniteSets, Json, IOUtils, TLC

VARIABLES i, stack, bad

T == ndJsonDeserialize(IOEnv.RECORDS)
N == Len(T)

Frame(f) == [f |-> f, pend |-> 0, pk |-> "none", sec |-> 1, nf |-> <<0, 0>>, nc |-> <<0, 0>>, hdr |-> TRUE, line |-> 1,
             want |-> FALSE, fin |-> FALSE, mustfail |-> FALSE]
Top == stack[Len(stack)]
SetTop(fr) == [stack EXCEPT ![Len(stack)] = fr]
Flag(c, e) == IF c THEN bad ELSE bad \cup {e.id}

Init == i = 1 /\ stack = <<>> /\ bad = {}
Step ==
  /\ i <= N
  /\ LET e == T[i] IN
       CASE e.ev = "begin" -> stack' = Append(stack, Frame(e.f)) /\ bad' = bad
         [] e.ev = "end" ->
              /\ bad' = Flag(stack # <<>> /\ Top.f = e.f /\ (e.ok => Top.fin /\ Top.pend = 0 /\ ~Top.mustfail), e)
              /\ stack' = IF stack = <<>> THEN stack ELSE SubSeq(stack, 1, Len(stack) - 1)
         [] stack = <<>> -> UNCHANGED <<stack, bad>>                                    \* the parser driven outside a read
         [] e.ev = "stmt" ->
              LET fr == Top IN
              /\ bad' = Flag(/\ fr.pend = 0 /\ ~fr.want /\ ~fr.fin          \* flushed before, nothing left pending
                             /\ e.line = fr.line, e)                           \* applied on the current line
              /\ stack' = SetTop(CASE e.kind \in {"field", "pad", "const"} -> [fr EXCEPT !.pend = e.line, !.pk = e.kind]
                                   \* a second marker is an error of the input: the read must not succeed
                                   [] e.kind = "marker" -> [fr EXCEPT !.sec = 2, !.hdr = TRUE, !.mustfail = (fr.sec = 2)]
                                   [] OTHER -> fr)
         [] e.ev = "flush" ->
              LET fr == Top IN
              /\ bad' = Flag(e.header = fr.hdr /\ e.line = fr.line /\ ~fr.want /\ (~e.header => e.attr = fr.pend)
                             /\ (e.header => fr.pend = 0), e)
              /\ stack' = SetTop(IF e.header THEN [fr EXCEPT !.hdr = FALSE] ELSE [fr EXCEPT !.want = TRUE])
         [] e.ev = "commit" ->
              LET fr == Top IN
              IF fr.want
              THEN /\ bad' = Flag(e.pending = (fr.pend # 0) /\ e.section = fr.sec, e)
                   /\ stack' = SetTop([fr EXCEPT !.want = FALSE, !.pend = 0, !.pk = "none",
                                                 !.nf[fr.sec] = @ + (IF fr.pend # 0 /\ fr.pk \in {"field", "pad"} THEN 1 ELSE 0),
                                                 !.nc[fr.sec] = @ + (IF fr.pend # 0 /\ fr.pk = "const" THEN 1 ELSE 0)])
              ELSE \* the builder's own flush when the next attribute is queued: the parser's flush has emptied the queue
                   /\ bad' = Flag(~e.pending, e)
                   /\ stack' = stack
         [] e.ev = "eol" ->
              /\ bad' = Flag(e.line > Top.line /\ ~Top.want, e)
              /\ stack' = SetTop([Top EXCEPT !.line = e.line])
         [] e.ev = "finalize" ->
              LET fr == Top IN
              /\ bad' = Flag(/\ ~e.pending /\ fr.pend = 0 /\ ~fr.want /\ ~fr.fin
                             /\ Len(e.sections) = fr.sec
                             /\ \A j \in 1..fr.sec : e.sections[j][1] = fr.nf[j] /\ e.sections[j][2] = fr.nc[j], e)
              /\ stack' = SetTop([fr EXCEPT !.fin = TRUE])
         [] OTHER -> UNCHANGED <<stack, bad>>
  /\ i' = i + 1
Spec == Init /\ [][Step]_<<i, stack, bad>>
Verdict == i = N + 1 => PrintT(<<"VERDICT", N, bad>>)
=============================================================================
