SPECIFICATION Spec
CONSTANTS Growth = 2 Mode = "values" MaxBits = 0 Wide = TRUE Lean = FALSE
INVARIANT UniverseLegal
INVARIANT RoundTrip
INVARIANT LengthInBLS
INVARIANT WholeBytes
INVARIANT DefaultsSameAsZeros
INVARIANT OffsetsAreStarts
INVARIANT DecTotal
INVARIANT FixedPoint
INVARIANT TruncationIgnored
INVARIANT ZeroExtension
CHECK_DEADLOCK FALSE
