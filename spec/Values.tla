------------------------------- MODULE Values -------------------------------
(***************************************************************************)
(* C18: type-model objects as immutable values.                            *)
(* Part 1 - equality: an object's key is (class, normalised string form,   *)
(* approximate bit length set = (min, max, residues mod 32)); two objects  *)
(* are equal iff their keys are.  For a pair of descriptions built         *)
(* independently the specification says whether they MUST be equal, MUST   *)
(* differ, or may be either (only when the exact sets differ but their     *)
(* approximations coincide: equality may err towards equal, never towards  *)
(* different).                                                             *)
(* Part 2 - aliasing: accessors hand out lists; mutating a list that was   *)
(* handed out never changes what the object shows.                         *)
(***************************************************************************)
EXTENDS LayoutOps

CONSTANTS Mode,              \* "pairs" or "acc"
          MaxSteps,          \* length of the accessor histories
          AsFoundAlias       \* TRUE reproduces F6: name_components hands out the internal list

VARIABLES ph, case, out
vars == <<ph, case, out>>

U(n, m) == [k |-> "u", n |-> n, m |-> m]
I(n)    == [k |-> "i", n |-> n]
F(n, m) == [k |-> "f", n |-> n, m |-> m]
V(n)    == [k |-> "void", n |-> n]
Bool    == [k |-> "bool"]
Fix(e, c) == [k |-> "fix", e |-> e, c |-> c]
Var(e, c) == [k |-> "var", e |-> e, c |-> c]
\* composites carry the name of their definition: the string form of a composite is its name and version only
St(f, nm)   == [k |-> "st", f |-> f, nm |-> nm]
Un(f, nm)   == [k |-> "un", f |-> f, nm |-> nm]
Del(t, x)   == [k |-> "del", inner |-> t, x |-> x, nm |-> t.nm]

Prims == { Bool, U(8, "s"), U(8, "t"), U(7, "s"), I(8), F(16, "s"), V(8), V(7), U(16, "s") }
Elems == { t \in Prims : t.k # "void" }
Comps == { St(<<U(8, "s")>>, "X"), St(<<U(8, "s")>>, "Y"), St(<<U(16, "s")>>, "X"), St(<<U(8, "s"), U(8, "s")>>, "X"),
           Un(<<U(8, "s"), Bool>>, "X"), Un(<<U(8, "s"), Bool>>, "Y"), St(<<Var(U(8, "s"), 3)>>, "X"), St(<<Var(U(8, "s"), 4)>>, "X"),
           St(<<Var(U(8, "s"), 35)>>, "X"), St(<<Var(U(8, "s"), 36), V(8)>>, "X"),   \* exact sets differ, approximations may not
           St(<<>>, "X"), St(<<V(8)>>, "X"),
           \* equal min / max and equal residues modulo 8, different residues modulo 32
           St(<<Var(U(8, "s"), 8)>>, "X"), St(<<Var(U(16, "s"), 4)>>, "X"),
           \* unions whose first variant is itself composed (its set is shared with the union's own operator tree)
           Un(<<Var(U(8, "s"), 2), U(32, "s"), U(16, "s")>>, "X"), Un(<<Fix(U(7, "s"), 3), U(32, "s")>>, "Y"),
           St(<<Var(U(8, "s"), 2), U(7, "s")>>, "Y") }
Descs == Prims \cup { Fix(e, c) : e \in Elems, c \in {1, 2} } \cup { Var(e, c) : e \in Elems, c \in {1, 2, 3} }
         \cup Comps \cup { Del(c, x) : c \in { y \in Comps : MaxOf(BLS(y)) <= 64 }, x \in {64, 128} }
         \cup { Fix(c, 2) : c \in Comps } \cup { Var(c, 2) : c \in Comps }

Class(t) == t.k                       \* one implementation class per kind (byte / utf8 are not in this universe)
RECURSIVE Norm(_)
Norm(t) == CASE t.k \in {"fix", "var"} -> [k |-> t.k, e |-> Norm(t.e), c |-> t.c]
             [] t.k \in {"st", "un", "del"} -> [k |-> "ref", nm |-> t.nm]
             [] OTHER -> t
Approx(t) == LET B == BLS(t) IN <<MinOf(B), MaxOf(B), ModSet(B, 32)>>
Key(t) == <<Class(t), Norm(t), Approx(t)>>
Verdict(a, b) ==
  IF Class(a) # Class(b) \/ Norm(a) # Norm(b) THEN "no"
  ELSE IF BLS(a) = BLS(b) THEN "yes"
  ELSE IF Approx(a) = Approx(b) THEN "either" ELSE "no"

PInit == ph = 0 /\ case = [a |-> Bool] /\ out = "yes"
PickA == Mode = "pairs" /\ ph = 0 /\ \E a \in Descs : case' = [a |-> a] /\ out' = "yes" /\ ph' = 1
PickB == ph = 1 /\ \E b \in Descs : case' = [a |-> case.a, b |-> b] /\ out' = Verdict(case.a, b) /\ ph' = 2
PSpec == PInit /\ [][PickA \/ PickB]_vars

\* equality by key is reflexive and symmetric, equal sets are never told apart, and the verdict follows the keys
KeyEqualityLaws ==
  ph = 2 =>
    /\ (Key(case.a) = Key(case.a))
    /\ (Key(case.a) = Key(case.b)) = (Key(case.b) = Key(case.a))
    /\ BLS(case.a) = BLS(case.b) => Approx(case.a) = Approx(case.b)
    /\ out = "yes" => Key(case.a) = Key(case.b)
    /\ out = "no" => Key(case.a) # Key(case.b)
    /\ out = "either" => Key(case.a) = Key(case.b)

-----------------------------------------------------------------------------
(* Part 2: accessor / mutate / observe.                                                                           *)
(* case = [obj, warm, h]: the kind of object, whether it has been observed (every accessor read once) before the   *)
(* history starts - a lazily filled per-accessor cache would behave differently on the first read -, and the       *)
(* history of (accessor, mutation) steps.  out = what the object shows; it never changes.                          *)
Accessors == {"attributes", "fields", "fields_except_padding", "constants", "name_components", "namespace_components"}
Ops == {"append", "clear", "pop", "reverse", "setitem"}
ObjKinds == {"st", "un", "del", "inner", "svc", "req"}      \* structure, union, delimited + its inner type, service + its request
\* objects that were not read from a definition but built by the caller through the public constructors from a list of
\* attributes of the caller's own (structure, union, the delimited wrapper of such a structure): the caller's list is one more
\* list that may alias the object's state - "ctor_arg" stands for it in a history
BuiltKinds == {"bst", "bun", "bdel"}
\* a structure built from a generator / a tuple of attributes (nothing of the caller's to alias): it shows what the one built
\* from a list shows
ArgFormKinds == {"gst", "tst"}
AccessorsOf(o) == IF o \in BuiltKinds THEN Accessors \cup {"ctor_arg"} ELSE Accessors
\* what the object shows: name components and the numbers of attributes; a handed-out list is a copy unless aliased
Obj0 == [names |-> <<"ns", "sub", "T">>, nattr |-> 3]
MutList(l, op) == CASE op = "append" -> Append(l, "zz") [] op = "clear" -> <<>> [] op = "pop" -> IF l = <<>> THEN l ELSE SubSeq(l, 1, Len(l) - 1)
                    [] op = "reverse" -> [j \in DOMAIN l |-> l[Len(l) + 1 - j]] [] op = "setitem" -> IF l = <<>> THEN l ELSE [l EXCEPT ![1] = "zz"]
AInit == ph = 0 /\ case = [obj |-> "st", warm |-> FALSE, h |-> <<>>] /\ out = Obj0
APick == /\ Mode = "acc" /\ ph = 0
         /\ \E o \in ObjKinds \cup BuiltKinds \cup ArgFormKinds, w \in BOOLEAN : case' = [obj |-> o, warm |-> w, h |-> <<>>]
         /\ out' = Obj0 /\ ph' = 1
AStep == /\ Mode = "acc" /\ ph >= 1 /\ ph <= MaxSteps
         /\ \E a \in AccessorsOf(case.obj), op \in Ops :
              /\ case' = [case EXCEPT !.h = Append(@, [acc |-> a, op |-> op])]
              /\ out' = IF AsFoundAlias /\ a = "name_components" THEN [out EXCEPT !.names = MutList(@, op)] ELSE out
         /\ ph' = ph + 1
ASpec == AInit /\ [][APick \/ AStep]_vars
ProjectionUnchanged == out = Obj0
=============================================================================
