SPECIFICATION Spec
INVARIANT Verdict
CHECK_DEADLOCK FALSE
