SPECIFICATION MSpec
CONSTANTS MaxMut = 2 NSeeds = 3
CONSTANT SeedLens <- SeedLensDef
INVARIANT OpsBounded
CHECK_DEADLOCK FALSE
