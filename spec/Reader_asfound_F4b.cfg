SPECIFICATION Spec
CONSTANTS SelfNamed = FALSE Lean = FALSE DirSet = {1, 2, 3} MaxDefs = 2 Rich = FALSE Entry = "namespace" Bodies = {"ok","print"} Dups = FALSE AsFoundTwoObjects = FALSE AsFoundPrintPath = TRUE
INVARIANT ResolvesExactly
INVARIANT BadReferenceFails
INVARIANT AcyclicWhenOk
INVARIANT DirectIsTargets
INVARIANT TransitiveIsClosureMinusTargets
INVARIANT NoLoadOutsideClosure
INVARIANT LoadedOncePerFile
INVARIANT OutsideIrrelevant
INVARIANT StackBounded
INVARIANT LogBalanced
INVARIANT LogInsideClosure
INVARIANT PrintOnce
INVARIANT PrintOwnPath
INVARIANT ErrPathIsFaultFile
CHECK_DEADLOCK FALSE
