------------------------------ MODULE Constants ------------------------------
(***************************************************************************)
(* C12: which constant initialisers are compliant with a declared type.    *)
(* Types: bool, u(n, mode), i(n) (n up to 64), f(16|32|64, mode).          *)
(* Values are SYMBOLIC so that every width is reachable with 32-bit        *)
(* integers:                                                               *)
(*   [k |-> "pow", s, e, o, third]  =  s * 2^e + o (+ 1/3 if third)        *)
(*   [k |-> "fmax", fmt, s, d]      =  s * (largest finite of fmt + d/3)   *)
(*   [k |-> "bool", b], [k |-> "set"]                                      *)
(*   [k |-> "str", cs]  a string as the sequence of its characters'       *)
(*                      classes (CharClasses below)                        *)
(* Compliant is evaluated on exponents; SymbolicMatchesExact checks it     *)
(* against plain integer arithmetic wherever TLC can compute the value.    *)
(***************************************************************************)
EXTENDS Integers, Sequences, FiniteSets, TLC

VARIABLES ph, case, out
vars == <<ph, case, out>>

RECURSIVE Pow2(_)
Pow2(n) == IF n = 0 THEN 1 ELSE 2 * Pow2(n - 1)

\* sign of (2^e1 + o1) - (2^e2 + o2) for |o| <= 1, without computing large powers
CmpPow(e1, o1, e2, o2) ==
  IF e1 <= 4 /\ e2 <= 4 THEN (Pow2(e1) + o1) - (Pow2(e2) + o2)
  ELSE IF e1 <= 4 THEN 0 - 1                  \* at most 17 against at least 31
  ELSE IF e2 <= 4 THEN 1
  ELSE IF e1 # e2 THEN e1 - e2                \* 2^e + 1 < 2^(e+1) - 1 for e >= 2
  ELSE o1 - o2

\* v = s * 2^e + o (third ignored): lower and upper bound tests against the type's inclusive range
IsZero(v) == v.s = 0 - 1 /\ v.e = 0 /\ v.o = 1
\* magnitude of a negative v = -(2^e) + o is 2^e - o
InRangeU(n, v) ==      \* 0 <= v <= 2^n - 1
  IF v.s = 1 THEN CmpPow(v.e, v.o, n, 0 - 1) <= 0 ELSE IsZero(v)
InRangeI(n, v) ==      \* -2^(n-1) <= v <= 2^(n-1) - 1
  IF v.s = 1 THEN CmpPow(v.e, v.o, n - 1, 0 - 1) <= 0
  ELSE IsZero(v) \/ CmpPow(v.e, 0 - v.o, n - 1, 0) <= 0          \* 2^e - o <= 2^(n-1)

\* character classes: a = printable ASCII, c = ASCII control (tab, NUL, DEL), l = U+0080..U+00FF, w = other BMP letters,
\* m = combining mark, x = beyond the BMP, s = lone surrogate (only expressible through an escape),
\* k = a non-ASCII character that Unicode normalisation maps to an ASCII one (KELVIN SIGN, GREEK QUESTION MARK ...)
CharClasses == {"a", "c", "l", "w", "m", "x", "s", "k"}
OneAscii(cs) == Len(cs) = 1 /\ cs[1] \in {"a", "c"}
Strings == {<<>>} \cup { <<x>> : x \in CharClasses } \cup { <<x, y>> : x \in CharClasses, y \in CharClasses }
           \cup { <<x, y, z>> : x \in {"a", "m", "l"}, y \in {"a", "m", "l"}, z \in {"a", "m", "l"} }

Compliant(t, v) ==
  CASE t.k = "bool" -> v.k = "bool"
    \* the largest finite binary16 value, 65504, is an integer (the other formats' maxima exceed 64 bits)
    [] t.k = "u" -> \/ v.k = "pow" /\ ~v.third /\ InRangeU(t.n, v)
                    \/ v.k = "fmax" /\ v.fmt = 16 /\ v.d = 0 /\ v.s = 1 /\ t.n >= 16
                    \/ v.k = "str" /\ OneAscii(v.cs) /\ t.n = 8            \* one ASCII character, 8-bit unsigned only
    [] t.k = "i" -> \/ v.k = "pow" /\ ~v.third /\ InRangeI(t.n, v)
                    \/ v.k = "fmax" /\ v.fmt = 16 /\ v.d = 0 /\ t.n >= 17
    \* |s * 2^e + o (+ 1/3)| against the largest finite value: binary16 65504 = 2^16 - 32 admits e <= 15; the symbolic
    \* exponents stop at 65, far inside binary32 / binary64
    [] t.k = "f" -> \/ v.k = "pow" /\ (t.n >= 32 \/ v.e <= 15)
                    \/ v.k = "fmax" /\ (v.fmt < t.n \/ (v.fmt = t.n /\ v.d <= 0))

Types == {[k |-> "bool"]} \cup { [k |-> "u", n |-> n, m |-> m] : n \in 1..64, m \in {"s", "t"} }
         \cup { [k |-> "i", n |-> n] : n \in 2..64 } \cup { [k |-> "f", n |-> n, m |-> m] : n \in {16, 32, 64}, m \in {"s", "t"} }
Width(t) == IF t.k = "bool" THEN 8 ELSE t.n
ValuesFor(t) ==
  LET n == Width(t)
      es == { e \in {0, 1, 2, n - 2, n - 1, n, n + 1, 14, 15, 16} : e >= 0 /\ e <= 65 }
  IN { [k |-> "pow", s |-> s, e |-> e, o |-> o, third |-> th] : s \in {1, 0 - 1}, e \in es, o \in {0 - 1, 0, 1}, th \in BOOLEAN }
     \cup { [k |-> "fmax", fmt |-> f, s |-> s, d |-> d] : f \in {16, 32, 64}, s \in {1, 0 - 1}, d \in {0 - 1, 0, 1} }
     \cup { [k |-> "bool", b |-> b] : b \in BOOLEAN }
     \cup { [k |-> "str", cs |-> x] : x \in Strings } \cup { [k |-> "set"] }

Init == ph = 0 /\ case = [ty |-> [k |-> "bool"]] /\ out = FALSE
PickType == ph = 0 /\ \E t \in Types : case' = [ty |-> t] /\ out' = FALSE /\ ph' = 1
PickValue == ph = 1 /\ \E v \in ValuesFor(case.ty) : case' = [ty |-> case.ty, val |-> v] /\ out' = Compliant(case.ty, v) /\ ph' = 2
Next == PickType \/ PickValue
Spec == Init /\ [][Next]_vars

\* the symbolic range test agrees with plain arithmetic wherever the numbers fit
Exact(v) == v.s * Pow2(v.e) + v.o
SymbolicMatchesExact ==
  ph = 2 /\ case.val.k = "pow" /\ case.ty.k \in {"u", "i"} /\ case.ty.n <= 24 /\ case.val.e <= 25 =>
    LET x == Exact(case.val) n == case.ty.n IN
      IF case.ty.k = "u" THEN InRangeU(n, case.val) = (0 <= x /\ x <= Pow2(n) - 1)
      ELSE InRangeI(n, case.val) = (0 - Pow2(n - 1) <= x /\ x <= Pow2(n - 1) - 1)
\* a wider type accepts everything the narrower one accepts
Monotone ==
  ph = 2 /\ out /\ case.ty.k \in {"u", "i"} /\ case.ty.n < 64 /\ case.val.k = "pow" =>
    Compliant([case.ty EXCEPT !.n = @ + 1], case.val)
=============================================================================
