SPECIFICATION Spec
CONSTANT Rich = TRUE
INVARIANT ContainerLayoutStable
INVARIANT CrossRead
CHECK_DEADLOCK FALSE
