SPECIFICATION Spec
CONSTANTS Mode = "trees" Deep = TRUE
INVARIANT WellFormedValue
INVARIANT RatNormal
CHECK_DEADLOCK FALSE
