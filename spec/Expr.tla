-------------------------------- MODULE Expr --------------------------------
(***************************************************************************)
(* Enumeration of constant expressions for C04.                            *)
(*  Mode "grid":  every ordered pair of binary operators in both nestings  *)
(*                over operand triples, plus unary / attribute mixes: the  *)
(*                precedence and associativity grid (rendered without      *)
(*                parentheses wherever the Specification needs none);      *)
(*  Mode "kinds": every operator with every ordered pair of operand kinds: *)
(*                exactly the undefined combinations are rejected;         *)
(*  Mode "trees": type-directed trees of depth <= 2.                       *)
(* case = an AST; out = [v |-> Eval(case), toks, full].                    *)
(***************************************************************************)
EXTENDS ExprOps

CONSTANTS Mode, Deep

VARIABLES ph, case, out
vars == <<ph, case, out>>

Lit(v) == [op |-> "lit", v |-> v]
UnE(o, a) == [op |-> "un", o |-> o, a |-> a]
BinE(o, a, b) == [op |-> "bin", o |-> o, a |-> a, b |-> b]
AttrE(a, n) == [op |-> "attr", a |-> a, n |-> n]
SetE(es) == [op |-> "set", e |-> es]

OutOf(x) == [v |-> Eval(x), toks |-> Tok(x, FALSE), full |-> Tok(x, TRUE)]

\* (The large case sets take a dummy argument: TLC evaluates every zero-arity definition eagerly at start-up, on one
\* thread, whether the configuration uses it or not.)
(* grid *)
GridLeaves == { Lit(IntV(2)), Lit(IntV(3)), Lit(IntV(7)), Lit(BoolV(TRUE)), Lit(BoolV(FALSE)) }
GridExtras(dummy) ==
  LET a == Lit(IntV(2)) b == Lit(IntV(3)) c == Lit(IntV(7)) t == Lit(BoolV(TRUE)) f == Lit(BoolV(FALSE))
      s == SetE(<<Lit(IntV(1)), Lit(IntV(4))>>) IN
  { BinE("**", UnE("-", a), b),            \* written (-2) ** 3
    UnE("-", BinE("**", a, b)),            \* written -2 ** 3
    BinE("**", a, UnE("-", b)),            \* 2 ** -3
    BinE("**", a, BinE("**", b, a)),       \* 2 ** 3 ** 2 (right associative)
    BinE("**", BinE("**", a, b), a),       \* (2 ** 3) ** 2
    UnE("!", BinE("==", t, f)),            \* ! true == false
    BinE("==", UnE("!", t), f),            \* (! true) == false
    BinE("&&", UnE("!", f), f),            \* ! false && false
    UnE("!", BinE("&&", f, f)),            \* !(false && false)
    BinE("||", UnE("!", t), t),
    UnE("!", BinE("||", t, t)),
    BinE("*", UnE("-", a), b), UnE("-", BinE("*", a, b)), BinE("-", a, UnE("-", b)), UnE("-", UnE("-", a)),
    UnE("+", UnE("-", a)), BinE("+", AttrE(s, "count"), b), BinE("**", AttrE(s, "max"), a),
    AttrE(BinE("|", s, SetE(<<c>>)), "count"), BinE("|", s, SetE(<<c>>)), BinE("<", UnE("-", a), b),
    BinE("%", UnE("-", c), b), BinE("%", c, UnE("-", b)), BinE("/", a, BinE("/", b, c)), BinE("/", BinE("/", a, b), c),
    BinE("-", a, BinE("-", b, c)), BinE("-", BinE("-", a, b), c) }

(* kinds *)
Reps(dummy) == { Lit(IntV(6)), Lit(IntV(0)), Lit(Rat(1, 2)), Lit(Rat(3, 10)), UnE("-", Lit(IntV(3))), Lit(BoolV(TRUE)), Lit(StrV("a")),
          SetE(<<Lit(IntV(1)), Lit(IntV(2))>>), SetE(<<Lit(IntV(2)), Lit(IntV(5))>>), SetE(<<Lit(StrV("a"))>>),
          SetE(<<SetE(<<Lit(IntV(1))>>)>>), SetE(<<>>), SetE(<<Lit(IntV(1)), Lit(BoolV(TRUE))>>), SetE(<<Lit(BoolV(TRUE))>>),
          SetE(<<SetE(<<Lit(IntV(1))>>), SetE(<<Lit(IntV(1)), Lit(IntV(2))>>)>>),                      \* a chain of sets
          SetE(<<SetE(<<Lit(IntV(1))>>), SetE(<<Lit(IntV(2))>>)>>),                                    \* incomparable sets
          SetE(<<Lit(StrV("a")), Lit(StrV("b"))>>), SetE(<<Lit(BoolV(TRUE)), Lit(BoolV(FALSE))>>),
          Lit(TypeV("uint8")), SetE(<<Lit(TypeV("uint8")), Lit(TypeV("uint16"))>>), SetE(<<Lit(TypeV("uint8"))>>) }

(* trees *)
RatL == { Lit(IntV(2)), Lit(IntV(5)), Lit(Rat(3, 2)) }
BoolL == { Lit(BoolV(TRUE)), Lit(BoolV(FALSE)) }
SetL == { SetE(<<Lit(IntV(1)), Lit(IntV(2))>>), SetE(<<Lit(IntV(2)), Lit(IntV(6))>>) }
Rat1(dummy) == RatL \cup { UnE("-", x) : x \in RatL } \cup { BinE(o, x, y) : o \in ArithOps \cup BitOps, x \in RatL, y \in RatL }
        \cup { AttrE(s, n) : s \in SetL, n \in {"min", "max", "count"} }
Set1(dummy) == SetL \cup { BinE(o, s, u) : o \in BitOps, s \in SetL, u \in SetL }
        \cup { BinE(o, s, x) : o \in {"+", "*", "-"}, s \in SetL, x \in RatL } \cup { BinE(o, x, s) : o \in {"-", "/"}, s \in SetL, x \in RatL }
Bool1(dummy) == BoolL \cup { UnE("!", x) : x \in BoolL } \cup { BinE(o, x, y) : o \in CmpOps, x \in RatL, y \in RatL }
         \cup { BinE(o, x, y) : o \in LogOps \cup {"==", "!="}, x \in BoolL, y \in BoolL }
         \cup { BinE(o, s, u) : o \in CmpOps, s \in SetL, u \in SetL }
Trees2(dummy) ==
     { BinE(o, x, y) : o \in ArithOps \cup BitOps \cup CmpOps, x \in Rat1(0), y \in RatL }
  \cup { BinE(o, x, y) : o \in ArithOps \cup BitOps \cup CmpOps, x \in RatL, y \in Rat1(0) }
  \cup { BinE(o, x, y) : o \in LogOps \cup {"==", "!="}, x \in Bool1(0), y \in BoolL }
  \cup { BinE(o, x, y) : o \in LogOps, x \in BoolL, y \in Bool1(0) }
  \cup { UnE("!", x) : x \in Bool1(0) } \cup { UnE("-", x) : x \in Rat1(0) }
  \cup { BinE(o, s, x) : o \in ArithOps, s \in Set1(0), x \in RatL } \cup { AttrE(s, n) : s \in Set1(0), n \in {"min", "max", "count"} }
  \cup { BinE(o, s, u) : o \in BitOps \cup CmpOps, s \in Set1(0), u \in SetL }
Trees2Deep(dummy) == { BinE(o, x, y) : o \in {"+", "-", "*", "/", "%", "|", "<", "=="}, x \in Rat1(0), y \in Rat1(0) }
              \cup { BinE(o, x, y) : o \in LogOps, x \in Bool1(0), y \in Bool1(0) }

\* Cases are built in steps (a successor set is expanded by a single TLC worker, so the work is spread by choosing the
\* operator(s) first and the operands last); ph = 9 marks a complete case.
Init == ph = 0 /\ case = Lit(IntV(0)) /\ out = 0
Pick1 ==
  /\ ph = 0
  /\ \/ Mode = "grid" /\ \E p \in BinOps : case' = [p |-> p]
     \/ Mode = "grid" /\ case' = [p |-> "extras"]
     \/ Mode = "kinds" /\ \E o \in BinOps \cup {"!", "-u", "+u", "min", "max", "count", "size", "self"} : case' = [p |-> o]
     \/ Mode = "trees" /\ \E k \in 1..12 : case' = [p |-> k]
  /\ out' = 0 /\ ph' = 1
Pick2 ==
  /\ ph = 1 /\ Mode = "grid" /\ case.p # "extras"
  /\ \E q \in BinOps, sh \in {"L", "R"} : case' = [p |-> case.p, q |-> q, sh |-> sh]
  /\ out' = 0 /\ ph' = 2
Done(e) == case' = e /\ out' = OutOf(e) /\ ph' = 9
TreeSlice(k) ==     \* the tree universe cut into 12 slices
  LET U == Rat1(0) \cup Set1(0) \cup Bool1(0) \cup Trees2(0) \cup (IF Deep THEN Trees2Deep(0) ELSE {}) IN
    { e \in U : (CASE e.op = "bin" -> (CASE e.o \in {"+", "-"} -> 1 [] e.o \in {"*", "/"} -> 2 [] e.o \in {"%", "**"} -> 3
                                          [] e.o \in BitOps -> 4 [] e.o \in {"==", "!="} -> 5 [] e.o \in {"<", "<="} -> 6
                                          [] e.o \in {">", ">="} -> 7 [] OTHER -> 8)
                    [] e.op = "un" -> 9 [] e.op = "attr" -> 10 [] e.op = "set" -> 11 [] OTHER -> 12) = k }
Complete ==
  \/ /\ ph = 2
     /\ \E x \in GridLeaves, y \in GridLeaves, z \in GridLeaves :
          Done(IF case.sh = "L" THEN BinE(case.q, BinE(case.p, x, y), z) ELSE BinE(case.p, x, BinE(case.q, y, z)))
  \/ /\ ph = 1 /\ Mode = "grid" /\ case.p = "extras" /\ \E e \in GridExtras(0) : Done(e)
  \/ /\ ph = 1 /\ Mode = "kinds"
     /\ \/ case.p \in BinOps /\ \E a \in Reps(0), b \in Reps(0) : Done(BinE(case.p, a, b))
        \/ case.p \in {"!", "-u", "+u"} /\ \E a \in Reps(0) : Done(UnE(IF case.p = "!" THEN "!" ELSE IF case.p = "-u" THEN "-" ELSE "+", a))
        \/ case.p \in {"min", "max", "count", "size"} /\ \E a \in Reps(0) : Done(AttrE(a, case.p))
        \/ case.p = "self" /\ \E a \in Reps(0) : Done(a)
  \/ /\ ph = 1 /\ Mode = "trees" /\ \E e \in TreeSlice(case.p) : Done(e)
Next == Pick1 \/ Pick2 \/ Complete
Spec == Init /\ [][Next]_vars

\* redundant parentheses never change the meaning, and the value is one of the known forms
WellFormedValue == ph = 9 => out.v.t \in {"rat", "bool", "str", "set", "type", "err", "skip"}
RatNormal == ph = 9 /\ out.v.t = "rat" => out.v.d > 0 /\ Gcd(Abs(out.v.n), out.v.d) = 1
=============================================================================
