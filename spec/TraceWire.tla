----------------------------- MODULE TraceWire -----------------------------
(***************************************************************************)
(* Binding B for the bit reader / writer of pydsdl/_serdes.py: every       *)
(* recorded call of _BitReader.read_bits (both the byte-aligned fast path  *)
(* and the bit-by-bit path, clipped and exhausted reads, nested calls),     *)
(* align_to and bounded_subreader, and every _BitWriter, is checked        *)
(* against the reader / writer of the specification (WireOps):             *)
(*   a read of n bits at offset off of a reader [data, start, limit]       *)
(*   yields the bits of the data at off .. off+n-1, zero beyond the end of *)
(*   the data and beyond start + limit, and advances the offset by n;      *)
(*   the offset of a reader only moves by reads, alignment skips and       *)
(*   sub-reader hand-offs; a writer's buffer is its writes laid end to     *)
(*   end, LSB first, zero padded to a whole byte.                          *)
(* Values wider than TLC's integers travel as bit lists.                   *)
(***************************************************************************)
EXTENDS WireOps, Json, IOUtils

VARIABLES i, bad

Recs == ndJsonDeserialize(IOEnv.RECORDS)
N == Len(Recs)

DataBit(data, p) == IF p < 8 * Len(data) THEN (data[(p \div 8) + 1] \div Pow2(p % 8)) % 2 ELSE 0
\* bit p of a reader: zero at or beyond start + limit (limit < 0: unbounded)
ReaderBit(r, p) == IF r.limit >= 0 /\ p >= r.start + r.limit THEN 0 ELSE DataBit(r.data, p)
RECURSIVE ConcatBits(_, _)
ConcatBits(ws, j) == IF j > Len(ws) THEN <<>> ELSE ws[j] \o ConcatBits(ws, j + 1)

Ok(r) ==
  CASE r.kind = "rd" ->
         /\ r.off = r.prev                                             \* nothing moved the offset in between
         /\ r.after = r.off + r.n
         /\ Len(r.bits) = r.n
         /\ \A j \in 1..r.n : r.bits[j] = ReaderBit(r, r.off + j - 1)
    [] r.kind = "align" -> r.after = r.before + PadLen(r.before, r.a)
    [] r.kind = "sub" -> r.cstart = r.pbefore /\ r.climit = r.count /\ r.pafter = r.pbefore + r.count /\ r.count >= 0
    [] r.kind = "wr" -> r.data = ToBytes(ConcatBits(r.writes, 1)) /\ r.end = Len(ConcatBits(r.writes, 1))
    [] OTHER -> FALSE

Init == i = 1 /\ bad = {}
Next == /\ i <= N
        /\ i' = i + 1
        /\ bad' = IF Ok(Recs[i]) THEN bad ELSE bad \cup {Recs[i].id}
Spec == Init /\ [][Next]_<<i, bad>>
Verdict == i = N + 1 => PrintT(<<"VERDICT", N, bad>>)
=============================================================================
