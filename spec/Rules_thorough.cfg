SPECIFICATION Spec
CONSTANT MaxDev = 3
INVARIANT SkeletonValid
INVARIANT OutConsistent
CHECK_DEADLOCK FALSE
