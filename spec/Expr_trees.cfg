SPECIFICATION Spec
CONSTANTS Mode = "trees" Deep = FALSE
INVARIANT WellFormedValue
INVARIANT RatNormal
CHECK_DEADLOCK FALSE
