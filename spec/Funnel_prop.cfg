SPECIFICATION PSpec
CONSTANTS MaxMut = 1 NSeeds = 3
CONSTANT SeedLens <- SeedLensDef
INVARIANT EscapesOnlyIDE
INVARIANT RawNeverLaundered
CHECK_DEADLOCK FALSE
