---------------------------- MODULE WireRecords ----------------------------
(***************************************************************************)
(* Binding B' (call records) for deserialization: the harness calls        *)
(* pydsdl.deserialize(T, b) on byte strings it enumerates and records      *)
(* {id, ty, hdr, b, obs}; obs is {ok: true, v: value} or {ok: false, err:  *)
(* kind}.  TLC evaluates the specification's total decoder on every record *)
(* and reports the ids of all records that disagree (total verdict).       *)
(* JSON objects / arrays deserialize to TLA+ records / sequences of the    *)
(* very shape WireOps uses, so no conversion is needed.                    *)
(***************************************************************************)
EXTENDS WireOps, Json, IOUtils

VARIABLES i, bad

Recs == ndJsonDeserialize(IOEnv.RECORDS)
N == Len(Recs)

Ok(r) ==
  LET d == DecTop(r.ty, BytesToBits(r.b), r.hdr) IN
    IF r.obs.ok THEN d.ok /\ d.v = r.obs.v
    ELSE ~d.ok /\ d.err = r.obs.err

Init == i = 1 /\ bad = {}
Next == /\ i <= N
        /\ i' = i + 1
        /\ bad' = IF Ok(Recs[i]) THEN bad ELSE bad \cup {Recs[i].id}
Spec == Init /\ [][Next]_<<i, bad>>
Verdict == i = N + 1 => PrintT(<<"VERDICT", N, bad>>)
=============================================================================
