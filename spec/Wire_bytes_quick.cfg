SPECIFICATION Spec
CONSTANTS Growth = 1 Mode = "bytes" MaxBits = 16 Wide = FALSE Lean = FALSE
INVARIANT UniverseLegal
INVARIANT RoundTrip
INVARIANT LengthInBLS
INVARIANT WholeBytes
INVARIANT DefaultsSameAsZeros
INVARIANT OffsetsAreStarts
INVARIANT DecTotal
INVARIANT FixedPoint
INVARIANT TruncationIgnored
INVARIANT ZeroExtension
CHECK_DEADLOCK FALSE
