SPECIFICATION Spec
CONSTANTS Triples = FALSE ChainLen = 4
INVARIANT LoopsDecideTheRules
INVARIANT OutIsConsistent
CHECK_DEADLOCK FALSE
